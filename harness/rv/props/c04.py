"""C04 — Repositories are consulted in the documented order."""
from __future__ import annotations

import os
import shutil
import tempfile

from rv.core import Stream
from rv import backends as B

RULE = ("real build_repo over generated stacks (0-2 prior solutions, 0-2 source trees, 0-3 find-links directories, 0-2 index URLs, "
        "0-2 extra index URLs, --no-index) with the versions of one project distributed over them, upgrade exclusions and stale "
        "solution entries; each leaf is also asked alone; observable = the repository and version that answered and the list of "
        "repositories actually queried; non-trivial = more than one repository could answer, or a fall-through happened")
ASSUMPTIONS = [
    "requests.Session is replaced by an in-process fake index (request log = what a local index server would see)",
    "each leaf's own answer is taken from the real leaf asked alone (selection inside a leaf is C03's subject)",
]

VERSIONS = ["1.0", "1.5", "2.0", "2.5", "3.0"]
PRE_VERSIONS = ["2.0rc1", "3.1b1", "3.0.dev1", "2.6a2"]


SOURCE_DIR_NAMES = ["helper", "backtest", "latest", "contest", "attest", "greatest", "foo", "src", "testing", "protest"]


class StackStream(Stream):
    name = "stacks"
    quick_n = 300
    thorough_n = 12000
    batch = 50

    def setup(self):
        self.tmp = tempfile.mkdtemp(prefix="rvstack")

    def teardown(self):
        shutil.rmtree(getattr(self, "tmp", ""), ignore_errors=True)

    def generate(self, rng):
        def vers():
            return sorted(rng.sample(VERSIONS, rng.choice([0, 1, 1, 2, 3])))
        case = {
            "solutions": [{"version": rng.choice(VERSIONS), "has": rng.random() < 0.8} for _ in range(rng.choice([0, 0, 1, 1, 2]))],
            # where in its tree the source project lives: a directory of its own, the tree's root, or a directory below
            # another project (a workspace) - under names of all sorts that are not test directories
            "sources": [{"version": rng.choice(VERSIONS), "has": rng.random() < 0.7,
                         "place": rng.choice(["proj", "proj", ".", "workspace/" + rng.choice(SOURCE_DIR_NAMES), "deep/er/" + rng.choice(SOURCE_DIR_NAMES)])}
                        for _ in range(rng.choice([0, 0, 1, 2]))],
            "findlinks": [{"versions": vers()} for _ in range(rng.choice([0, 1, 1, 2, 3]))],
            "indexes": [{"versions": vers()} for _ in range(rng.choice([0, 1, 1, 2]))],
            "extras": [{"versions": vers()} for _ in range(rng.choice([0, 0, 1, 2]))],
            "no_index": rng.random() < 0.1,
            "upgrade": rng.random() < 0.2,
            "req": "foo" + rng.choice(["", "", ">=2.0", "<2.0", "==1.5", "!=3.0", ">=9"]),
        }
        if rng.random() < 0.25:
            case["only_binary"] = True        # the project is named under --only-binary: source *archives* are out, nothing else is
        if rng.random() < 0.25:
            # --pre: pre-releases are on for the whole stack; some locations hold release candidates
            case["pre"] = True
            for grp in ("findlinks", "indexes", "extras"):
                for s_ in case[grp]:
                    if rng.random() < 0.6:
                        s_["versions"] = sorted(set(s_["versions"]) | set(rng.sample(PRE_VERSIONS, rng.randint(1, 2))))
            case["req"] = "foo" + rng.choice(["", ">1.0", ">=2.0", "<3.1", ">2.5", "!=3.0"])
        if rng.random() < 0.4:
            # the solver asks one stack many times: earlier requests for the same project (other bounds) come first
            case["before"] = ["foo" + rng.choice([">=2.0", "<2.0", "==1.5", "!=3.0", ">=9", "==2.5", ""]) for _ in range(rng.choice([1, 1, 2]))]
        return case

    def _build(self, case, d):
        """materialise the back-ends; returns (repo, labels per leaf in expected order, fake indexes)"""
        import req_compile.cmdline as C
        B.clear_page_cache()
        os.makedirs(d, exist_ok=True)
        sols, srcs, fls = [], [], []
        for i, s in enumerate(case["solutions"]):
            p = os.path.join(d, "sol%d.txt" % i)
            with open(p, "w") as f:
                if s["has"]:
                    f.write("foo==%s  # in.txt\n" % s["version"])
                f.write("other==1.0  # in.txt\n")
            sols.append(p)
        for i, s in enumerate(case["sources"]):
            p = os.path.join(d, "src%d" % i)
            os.makedirs(p)
            place = s.get("place", "proj")
            if place.startswith("workspace/"):
                B.write_source_project(os.path.join(p, "workspace"), "ws", "0.1")
            B.write_source_project(os.path.normpath(os.path.join(p, place)), "foo" if s["has"] else "bar", s["version"])
            srcs.append(p)
        for i, s in enumerate(case["findlinks"]):
            p = os.path.join(d, "links%d" % i)
            B.write_findlinks(p, {B.wheel_name("foo", v): B.wheel_bytes("foo", v) for v in s["versions"]})
            fls.append(p)
        idx_objs, index_urls, extra_urls = [], [], []
        for kind, lst, urls in (("idx", case["indexes"], index_urls), ("extra", case["extras"], extra_urls)):
            for i, s in enumerate(lst):
                base = "http://%s%d.example/simple" % (kind, i)
                files = {B.wheel_name("foo", v): B.wheel_bytes("foo", v) for v in s["versions"]}
                idx_objs.append(B.FakeIndex(base, {"foo": files} if files else {}))
                urls.append(base)
        default = B.FakeIndex("https://pypi.org/simple", {})
        idx_objs.append(default)
        wheeldir = os.path.join(d, "wheeldir")
        os.makedirs(wheeldir)
        repo = C.build_repo(sols, ["foo"] if case["upgrade"] else [], srcs, [], fls, index_urls, wheeldir,
                            extra_index_urls=extra_urls, no_index=case["no_index"], allow_prerelease=bool(case.get("pre")))
        session = B.FakeSession(idx_objs)
        for leaf in B.leaves(repo):
            if hasattr(leaf, "session"):
                leaf.session = session
        return repo, idx_objs

    def impl(self, case):
        from rv.core import digest
        from req_compile.utils import parse_requirement
        from req_compile.errors import NoCandidateException
        d = os.path.join(self.tmp, digest(case))
        os.makedirs(d, exist_ok=True)
        try:
            try:
                repo, idx_objs = self._build(case, d)
            except ValueError as ex:
                return {"build_error": "ValueError", "text": str(ex)[:100]}
            req = parse_requirement(case["req"])
            lv = B.leaves(repo)
            labels = [repr(l).replace(d, "") for l in lv]
            # each leaf alone (fresh stack each time so that caches and logs do not interfere)
            alone = []
            for i in range(len(lv)):
                r2, _ = self._build(case, os.path.join(d, "alone%d" % i))
                leaf = B.leaves(r2)[i]
                try:
                    dist, _ = leaf.get_dist(req, allow_source_dist=not case.get("only_binary"))
                    alone.append(["ok", str(dist.version)])
                except NoCandidateException:
                    alone.append(["nocand", None])
                except Exception as ex:
                    alone.append(["raise", type(ex).__name__])
            # what a prior solution / a source tree "can satisfy" is known to the harness: it wrote them (the answer of the
            # code's own leaf is kept next to it; a difference is a finding of its own)
            ns, nr = len(case["solutions"]), len(case["sources"])
            code_alone = [list(a) for a in alone]
            for i in range(min(len(alone), ns + nr)):
                src = case["solutions"][i] if i < ns else case["sources"][i - ns]
                can = src["has"] and req.specifier.contains(src["version"], prereleases=True) and not (i < ns and case["upgrade"])
                alone[i] = ["ok", src["version"]] if can else ["nocand", None]
            if case.get("pre"):
                # with pre-releases switched on every version a location holds is a candidate: what a find-links directory or
                # an index "offers" is then plain to the harness as well - the newest version the request admits
                from packaging.version import Version
                held = [x["versions"] for x in case["findlinks"]]
                if not case["no_index"]:
                    held += ([x["versions"] for x in case["indexes"]] if case["indexes"] else [[]]) + [x["versions"] for x in case["extras"]]
                for j, vs in enumerate(held):
                    i = ns + nr + j
                    if i < len(alone):
                        okv = [v for v in vs if req.specifier.contains(v, prereleases=True)]
                        alone[i] = ["ok", str(Version(max(okv, key=Version)))] if okv else ["nocand", None]
            # the stack, with a query log
            queried = []
            for i, leaf in enumerate(lv):
                orig = leaf.get_candidates

                def wrapped(r, orig=orig, i=i):
                    queried.append(i)
                    return orig(r)
                leaf.get_candidates = wrapped
            for b in case.get("before", []):
                try:
                    repo.get_dist(parse_requirement(b), allow_source_dist=not case.get("only_binary"))
                except Exception:
                    pass
            del queried[:]
            try:
                dist, _ = repo.get_dist(req, allow_source_dist=not case.get("only_binary"))
                origin = [i for i, l in enumerate(lv) if dist.origin is l]
                ans = ["ok", str(dist.version), origin[0] if origin else None]
            except NoCandidateException:
                ans = ["nocand", None, None]
            except Exception as ex:
                ans = ["raise", type(ex).__name__, None]
            http = [u for idx in idx_objs for u in idx.log]
            return {"labels": labels, "alone": alone, "code_alone": code_alone, "answer": ans, "queried": queried, "http": http}
        finally:
            shutil.rmtree(d, ignore_errors=True)

    def model_request(self, case, r):
        if "build_error" in r:
            n = 0
        ns, nr, nf = len(case["solutions"]), len(case["sources"]), len(case["findlinks"])
        ni, ne = len(case["indexes"]), len(case["extras"])
        ids = list(range(ns + nr + nf + ni + ne + 1))
        sol, src, fl = ids[:ns], ids[ns:ns + nr], ids[ns + nr:ns + nr + nf]
        idx = ids[ns + nr + nf:ns + nr + nf + ni]
        ext = ids[ns + nr + nf + ni:ns + nr + nf + ni + ne]
        default = ids[-1]
        # answers per abstract member id, in the order the real stack lists its leaves
        answers = ["nocand"] * len(ids)
        if "alone" in r:
            order = sol + src + fl + ([] if case["no_index"] else ((idx if idx else [default]) + ext))
            for pos, a in enumerate(r["alone"]):
                if pos < len(order):
                    answers[order[pos]] = a[0]
        return {"op": "multi", "answers": answers, "solutions": sol, "sources": src, "findLinks": fl, "indexUrls": idx,
                "defaultIdx": default, "extraUrls": ext, "noIndex": case["no_index"]}

    def compare(self, case, r, m):
        if "build_error" in r:
            return m.get("error") == "ValueError"
        if "error" in m:
            return False
        order = m["order"]
        if len(order) != len(r["labels"]):
            return False
        # the kinds of the leaves, in stack order, must be what the model's build_repo produces
        ns, nr, nf = len(case["solutions"]), len(case["sources"]), len(case["findlinks"])
        ni, ne = len(case["indexes"]), len(case["extras"])

        def kind(mid):
            if mid < ns:
                return "--solution"
            if mid < ns + nr:
                return "--source"
            if mid < ns + nr + nf:
                return "--find-links"
            if mid < ns + nr + nf + ni:
                return "--index-url"
            if mid < ns + nr + nf + ni + ne:
                return "--extra-index-url"
            return "<default"
        if [kind(mid) for mid in order] != [l.split(" ")[0] for l in r["labels"]]:
            return False
        pos = {mid: p for p, mid in enumerate(order)}
        mq = [pos[q] for q in m["queried"]]
        if r["answer"][0] == "ok":
            ma = pos.get(m["answer"]) if isinstance(m["answer"], int) else None
            return ma == r["answer"][2] and mq == r["queried"]
        return m["answer"] == r["answer"][0] and mq == r["queried"]

    def flags(self, case, r):
        fl = []
        if "build_error" in r:
            return ["empty-stack"]
        oks = [i for i, a in enumerate(r["alone"]) if a[0] == "ok"]
        if len(oks) > 1:
            fl.append("several-can-answer")
        if r["answer"][0] == "ok" and r["answer"][2] not in (None, 0):
            fl.append("fall-through")
        if r["answer"][0] == "nocand":
            fl.append("nobody-answers")
        if case["upgrade"] and case["solutions"]:
            fl.append("upgrade-exclusion")
        if case.get("before"):
            fl.append("earlier-requests-on-the-same-stack")
        if case.get("only_binary"):
            fl.append("project-marked-binary-only")
        if len(set(a[1] for a in r["alone"] if a[0] == "ok")) > 1:
            fl.append("different-versions-offered")
        return fl

    def oracle(self, case, r):
        if "build_error" in r:
            nonempty = case["solutions"] or case["sources"] or case["findlinks"] or not case["no_index"]
            return [("C04/stack-construction-fails", r)] if nonempty else []
        fails = []
        # documented order of the leaves
        exp = (["--solution"] * len(case["solutions"]) + ["--source"] * len(case["sources"]) + ["--find-links"] * len(case["findlinks"]))
        if not case["no_index"]:
            exp += (["--index-url"] * len(case["indexes"]) if case["indexes"] else ["<default index>"]) + ["--extra-index-url"] * len(case["extras"])
        got = [l.split(" ")[0] if not l.startswith("<default") else "<default index>" for l in r["labels"]]
        if got != exp:
            fails.append(("C04/stack-order-differs", {"got": r["labels"], "expected": exp}))
            return fails
        # command-line order inside each group
        for prefix, n in (("sol", len(case["solutions"])), ("src", len(case["sources"])), ("links", len(case["findlinks"]))):
            seen = [l for l in r["labels"] if ("/" + prefix) in l]
            if seen != sorted(seen):
                fails.append(("C04/group-order-differs", {"labels": r["labels"]}))
        for i, (a, c) in enumerate(zip(r["alone"], r.get("code_alone", r["alone"]))):
            if c[0] != "raise" and (a[0] != c[0] or (a[0] == "ok" and str(a[1]) != str(c[1]))):
                fails.append(("C04/solution-or-source-tree-does-not-offer-what-it-holds", {"leaf": r["labels"][i], "holds": a, "answers": c,
                                                                                             "only_binary": bool(case.get("only_binary"))}))
        oks = [i for i, a in enumerate(r["alone"]) if a[0] == "ok"]
        raises = [i for i, a in enumerate(r["alone"]) if a[0] == "raise"]
        if raises:
            return fails
        if oks:
            first = oks[0]
            if r["answer"][0] != "ok" or r["answer"][2] != first or r["answer"][1] != r["alone"][first][1]:
                fails.append(("C04/not-first-success", {"answer": r["answer"], "alone": r["alone"], "labels": r["labels"]}))
            if any(q > first for q in r["queried"]):
                fails.append(("C04/later-repository-queried", {"queried": r["queried"], "first": first, "labels": r["labels"]}))
        else:
            if r["answer"][0] != "nocand":
                fails.append(("C04/answer-from-nowhere", {"answer": r["answer"]}))
        return fails


class ReleaseFallThrough(Stream):
    """a prior solution stacked before a find-links directory by the real build_repo; projects are released with -P in
    any spelling; one request: who answers, with which version?"""
    name = "release-fall-through"
    quick_n = 250
    thorough_n = 10000
    batch = 50

    NAMES = ["lazy-object-proxy", "Foo.Bar", "six", "zope.interface", "my_lib", "a"]
    VERS = ["1.0", "1.5", "2.0", "3.0"]

    def setup(self):
        import tempfile
        self.tmp = tempfile.mkdtemp(prefix="rvc04r")

    def teardown(self):
        import shutil
        shutil.rmtree(getattr(self, "tmp", ""), ignore_errors=True)

    @staticmethod
    def _spell(rng, n):
        out = []
        for ch in n:
            if ch in "-_.":
                out.append(rng.choice("-_."))
            elif ch.isalpha() and rng.random() < 0.3:
                out.append(ch.swapcase())
            else:
                out.append(ch)
        return "".join(out)

    def generate(self, rng):
        names = rng.sample(self.NAMES, rng.randint(1, 4))
        sol = {n: rng.choice(self.VERS[:3]) for n in names if rng.random() < 0.8}
        links = {n: sorted(rng.sample(self.VERS, rng.randint(1, 3))) for n in names if rng.random() < 0.8}
        released = [self._spell(rng, rng.choice(self.NAMES)) for _ in range(rng.choice([0, 1, 1, 2]))]
        case = {"solution": sol, "links": links, "released": released, "request": self._spell(rng, rng.choice(names))}
        if rng.random() < 0.4:
            # a second --solution file (listed after the first): the first one that records a project answers for it
            case["solution2"] = {n: rng.choice(self.VERS[:3]) for n in names if rng.random() < 0.7}
        return case

    @staticmethod
    def _front(case):
        """what the solution files offer together: first file first"""
        from rv import graphlib as GL
        front = dict(case["solution"])
        for n, v in (case.get("solution2") or {}).items():
            if GL.norm(n) not in {GL.norm(k) for k in front}:
                front[n] = v
        return front

    def impl(self, case):
        import contextlib
        import io
        import shutil
        from rv.core import digest
        from rv import backends as B, graphlib as GL
        import req_compile.cmdline as C
        from req_compile.errors import NoCandidateException
        GL.reset_caches()
        d = os.path.join(self.tmp, digest(case))
        os.makedirs(os.path.join(d, "links"), exist_ok=True)
        files = {}
        for n, vs in case["links"].items():
            for v in vs:
                files[B.wheel_name(n, v)] = B.wheel_bytes(n, v)
        B.write_findlinks(os.path.join(d, "links"), files)
        with open(os.path.join(d, "prior.txt"), "w") as f:
            for n, v in sorted(case["solution"].items()):
                f.write("%s==%s  # in0.txt\n" % (n, v))
        sols = [os.path.join(d, "prior.txt")]
        if case.get("solution2") is not None:
            with open(os.path.join(d, "prior2.txt"), "w") as f:
                for n, v in sorted(case["solution2"].items()):
                    f.write("%s==%s  # in0.txt\n" % (n, v))
            sols.append(os.path.join(d, "prior2.txt"))
        out = {}
        try:
            with contextlib.redirect_stderr(io.StringIO()):
                repo = C.build_repo(sols, case["released"], [], [], [os.path.join(d, "links")], [], os.path.join(d, "w"), no_index=True)
                try:
                    dist, _ = repo.get_dist(GL.P(case["request"]))
                    out["answer"] = str(dist.version)
                    out["origin"] = type(dist.origin).__name__
                except NoCandidateException:
                    out["answer"] = None
        except Exception as ex:
            out["error"] = type(ex).__name__ + ": " + str(ex)[:120]
        shutil.rmtree(d, ignore_errors=True)
        return out

    def model_request(self, case, r):
        rank = {v: i + 1 for i, v in enumerate(self.VERS)}
        return {"op": "stack-get", "front": [{"name": n, "versions": [rank[v]]} for n, v in self._front(case).items()],
                "back": [{"name": n, "versions": [rank[v] for v in vs]} for n, vs in case["links"].items()],
                "released": case["released"], "request": case["request"]}

    def compare(self, case, r, m):
        if "error" in r:
            return False
        rank = {v: i + 1 for i, v in enumerate(self.VERS)}
        got = None if r["answer"] is None else rank[r["answer"]]
        return got == m["answer"] and (r["answer"] is None or (r["origin"] == "SolutionRepository") == (not m["index_asked"]))

    def flags(self, case, r):
        from rv import graphlib as GL
        fl = []
        req = GL.norm(case["request"])
        rel = {GL.norm(x) for x in case["released"]}
        sol = {GL.norm(n) for n in self._front(case)}
        if case.get("solution2") is not None:
            fl.append("two-solution-files")
        if req in rel and req in sol:
            fl.append("requested-project-released")
        if req in sol and req not in rel:
            fl.append("answered-by-solution")
        if any(c in "-_." for c in "".join(case["released"])):
            fl.append("released-name-with-separator")
        if r.get("answer") is None:
            fl.append("no-candidate")
        return fl

    def oracle(self, case, r):
        from rv import graphlib as GL
        if "error" in r:
            return [("C04/stack-raises", r)]
        req = GL.norm(case["request"])
        rel = {GL.norm(x) for x in case["released"]}
        sol = {GL.norm(n): v for n, v in self._front(case).items()}
        links = {GL.norm(n): vs for n, vs in case["links"].items()}
        if req in sol and req not in rel:
            want, origin = sol[req], "SolutionRepository"
        elif req in links:
            want, origin = max(links[req], key=GL.V), "FindLinksRepository"
        else:
            want, origin = None, None
        if r["answer"] != want:
            kind = "released-project-still-served-by-solution" if (req in rel and req in sol and r["answer"] == sol[req] and r.get("origin") == "SolutionRepository") else "wrong-answer"
            return [("C04/%s" % kind, {"want": want, "got": r["answer"], "origin": r.get("origin")})]
        if want is not None and r["origin"] != origin:
            return [("C04/answered-by-wrong-repository", {"want": origin, "got": r["origin"]})]
        return []

    def shrink(self, case):
        for i in range(len(case["released"])):
            yield dict(case, released=case["released"][:i] + case["released"][i + 1:])
        for n in list(case["solution"]):
            yield dict(case, solution={k: v for k, v in case["solution"].items() if k != n})
        for n in list(case.get("solution2") or {}):
            yield dict(case, solution2={k: v for k, v in case["solution2"].items() if k != n})
        for n in list(case["links"]):
            yield dict(case, links={k: v for k, v in case["links"].items() if k != n})


class CliLocationOrder(Stream):
    """the order in which compile_main hands the repository locations to build_repo: command line first, then what the
    requirements files declare, each in listed order, repeated mentions dropped (first one stays)"""
    name = "cli-location-order"
    quick_n = 250
    thorough_n = 12000
    batch = 50

    LOCS = {"find": ["zeta", "alpha", "common", "m/wheels", "../shared"], "index": ["https://z.example/simple", "https://a.example/simple"],
            "extra": ["https://y.example/simple", "https://b.example/simple", "https://k.example/simple"]}
    FLAG = {"find": "--find-links", "index": "--index-url", "extra": "--extra-index-url"}

    def setup(self):
        self.tmp = tempfile.mkdtemp(prefix="rvc04o")

    def teardown(self):
        shutil.rmtree(getattr(self, "tmp", ""), ignore_errors=True)

    def generate(self, rng):
        def pick(kind, k):
            return [rng.choice(self.LOCS[kind]) for _ in range(k)]
        cmd = {"find": pick("find", rng.randint(0, 3)), "index": pick("index", rng.choice([0, 0, 1])), "extra": pick("extra", rng.randint(0, 2)),
               # source trees named on the command line; requirements files may add local projects (`-e dir`), which
               # join the source trees - after the ones of the command line
               "source": rng.sample(["treeA", "treeB"], rng.choice([0, 0, 1, 2]))}
        files = []
        for _ in range(rng.choice([1, 1, 2])):
            lines = []
            for _ in range(rng.randint(0, 4)):
                kind = rng.choice(["find", "find", "extra", "index", "editable"])
                lines.append([kind, rng.choice(self.LOCS[kind]) if kind != "editable" else rng.choice(["ed0", "ed1"])])
            files.append(lines)
        return {"cmd": cmd, "files": files}

    def impl(self, case):
        import contextlib
        import io
        from rv.core import digest
        import req_compile.cmdline as C
        d = os.path.join(self.tmp, digest(case))
        os.makedirs(d, exist_ok=True)
        args = []
        for ed in ("ed0", "ed1"):
            B.write_source_project(os.path.join(d, ed), ed, "0.1")
        for i, lines in enumerate(case["files"]):
            fn = os.path.join(d, "r%d.txt" % i)
            with open(fn, "w") as f:
                for kind, v in lines:
                    if kind == "editable":
                        f.write("-e %s\n" % os.path.join(d, v))
                    else:
                        f.write("%s %s\n" % (self.FLAG[kind], v))
                f.write("foo\n")
            args.append(fn)
        for kind in ("find", "index", "extra"):
            for v in case["cmd"][kind]:
                args += [self.FLAG[kind], v]
        for v in case["cmd"].get("source", []):
            os.makedirs(os.path.join(d, v), exist_ok=True)
            args += ["--source", os.path.join(d, v)]
        captured = {}

        class Stop(Exception):
            pass

        def fake_build_repo(solutions, upgrade_packages, sources, excluded_sources, find_links, index_urls, wheeldir, extra_index_urls=None, **kw):
            captured.update(index=list(index_urls), extra=list(extra_index_urls or []), find=list(find_links),
                            source=[os.path.relpath(x, d) for x in sources])
            raise Stop()

        orig = C.build_repo
        C.build_repo = fake_build_repo
        out = {}
        try:
            with contextlib.redirect_stderr(io.StringIO()), contextlib.redirect_stdout(io.StringIO()):
                try:
                    C.compile_main(args)
                except Stop:
                    out = dict(captured)
                except SystemExit as ex:
                    out = {"exit": ex.code}
                except Exception as ex:
                    out = {"error": type(ex).__name__}
        finally:
            C.build_repo = orig
            shutil.rmtree(d, ignore_errors=True)
        return out

    def _file_lists(self, case):
        out = {"find": [], "index": [], "extra": [], "editable": []}
        for lines in case["files"]:
            for kind, v in lines:
                out[kind].append(v)
        return out

    def model_request(self, case, r):
        fl = self._file_lists(case)
        return {"op": "batch", "reqs": [{"op": "merge-locations", "cmd": case["cmd"][k], "file": fl[k]} for k in ("find", "index", "extra")]}

    def compare(self, case, r, m):
        if "find" not in r:
            return False
        has_opts = any(lines for lines in case["files"])
        want = dict(zip(("find", "index", "extra"), m))
        if not has_opts:
            # no option line anywhere: the command-line lists are passed on untouched (repetitions included)
            want = {k: list(case["cmd"][k]) for k in want}
        return all(r[k] == want[k] for k in want)

    def flags(self, case, r):
        fl = []
        fll = self._file_lists(case)
        if any(fll.values()):
            fl.append("file-declares-locations")
        if any(case["cmd"].values()) and any(fll.values()):
            fl.append("command-line-and-file")
        merged = case["cmd"]["find"] + fll["find"]
        if len(set(merged)) < len(merged):
            fl.append("location-mentioned-twice")
        if list(dict.fromkeys(merged)) != sorted(set(merged)):
            fl.append("listed-order-not-alphabetical")
        return fl

    def oracle(self, case, r):
        if "find" not in r:
            return [("C04/cli-rejects-locations", r)]
        fll = self._file_lists(case)
        fails = []
        want_src = list(case["cmd"].get("source", [])) + fll["editable"]
        if r.get("source") != want_src:
            fails.append(("C04/source-trees-not-the-listed-ones", {"listed": want_src, "handed-to-build_repo": r.get("source")}))
        for k in ("find", "index", "extra"):
            want = list(dict.fromkeys(case["cmd"][k] + fll[k]))
            got = list(dict.fromkeys(r[k]))
            if got != want:
                kind = "order" if sorted(got) == sorted(want) else "set"
                fails.append(("C04/locations-not-in-listed-order/%s/%s" % (k, kind), {"listed": want, "handed-to-build_repo": r[k]}))
        return fails

    def shrink(self, case):
        for k in ("find", "index", "extra"):
            for i in range(len(case["cmd"][k])):
                yield dict(case, cmd=dict(case["cmd"], **{k: case["cmd"][k][:i] + case["cmd"][k][i + 1:]}))
        for fi, lines in enumerate(case["files"]):
            for i in range(len(lines)):
                nf = [list(x) for x in case["files"]]
                del nf[fi][i]
                yield dict(case, files=nf)


def streams():
    return [StackStream(), ReleaseFallThrough(), CliLocationOrder()]
