"""C19 — The Bazel lock loader recovers exactly what the compiler wrote."""
from __future__ import annotations

import os
import re
import shutil
import tempfile

from rv.core import Stream
from rv import graphlib as GL
from rv import textlib as TL
from rv import backends as B

RULE = ("solved graphs (names with dots/dashes/case, extras, single and several requirers, file-path requirers, wheels and sdists, "
        "one to three relative find-links locations incl. nested and parent-relative ones, index directives) written by the real "
        "writer in the Bazel output mode (header, URLs, hashes, multi-line, directives kept) and read by the Starlark loader "
        "(executed by the Python shim), by the Lean loader model, and compared with the expectation computed from the graph; the "
        "checked-in lock files are in the corpus; non-trivial = hits a flag")
ASSUMPTIONS = [
    "no Bazel/Starlark interpreter exists in the sandbox: reqs_repo.bzl/utils.bzl are executed by harness/rv/bzlshim.py "
    "(string methods as in Python 3, startswith accepts a tuple, dict insertion order, fail aborts)",
]
TRUSTED_EXTRA = ["harness/rv/bzlshim.py stands in for Bazel's Starlark interpreter"]

LOCK_LABEL = "@ws//third_party/python:requirements.txt"
WHEEL_DIRS = ["wheeldir", "deps/wheels", "../shared/wheeldir", "local-wheels", "local wheels", "third party/wheel dir"]


def gen_bazel_og(rng):
    og = TL.gen_og(rng, allow_path_requirers=True, allow_extras=True)
    dirs = rng.sample(WHEEL_DIRS, rng.choice([0, 1, 1, 2, 3]))
    for p in og["pins"]:
        ext = "-py3-none-any.whl" if rng.random() < 0.8 else ".tar.gz"
        fn = "%s-%s%s" % (p["name"].replace("-", "_"), p["version"], ext)
        if dirs and rng.random() < 0.45:
            d = rng.choice(dirs)
            p["link"] = [d, d + "/" + fn]
        else:
            p["link"] = ["https://files.example/pkgs/ab/cd/", fn + "#sha256=" + "%064x" % rng.getrandbits(256)]
        p["hash"] = "sha256:" + "%064x" % rng.getrandbits(256)
    og["wheel_dirs"] = dirs
    og["indexes"] = [["index", "https://idx.example/simple"]] * rng.choice([0, 1]) + [["extra", "https://extra.example/simple"]] * rng.choice([0, 1])
    return og


class BazelStream(Stream):
    name = "bazel-lock"
    quick_n = 400
    thorough_n = 20000
    batch = 100

    def setup(self):
        self.tmp = tempfile.mkdtemp(prefix="rvbzl")

    def teardown(self):
        shutil.rmtree(getattr(self, "tmp", ""), ignore_errors=True)

    def generate(self, rng):
        return {"og": gen_bazel_og(rng)}

    def _text(self, case):
        from req_compile.repos.findlinks import FindLinksRepository
        from req_compile.repos.pypi import PyPIRepository, IndexType
        from req_compile.repos.multi import MultiRepository
        from rv.bazelfe import load_private_compiler
        from rv.core import digest
        og = case["og"]
        g, roots, repo, ins = TL.compile_og(og)
        ws = os.path.join(self.tmp, digest(case), "ws", "third_party", "python")
        os.makedirs(ws, exist_ok=True)
        repos = []
        for kind, url in og["indexes"]:
            repos.append(PyPIRepository(url, None, index_type=IndexType.INDEX_URL if kind == "index" else IndexType.EXTRA_INDEX_URL))
        for d in og["wheel_dirs"]:
            full = os.path.normpath(os.path.join(ws, d))
            os.makedirs(full, exist_ok=True)
            repos.append(FindLinksRepository(full, relative_to=ws))
        repos.append(repo)
        pc = load_private_compiler()
        header = pc._HEADER.format(custom_compile_command="bazel run //:reqs.update", python="3.12.1", platform="Linux")
        text = header + TL.write_text(g, roots, MultiRepository(*repos), ins, urls=True, hashes=True, multiline=True)
        shutil.rmtree(os.path.join(self.tmp, digest(case)), ignore_errors=True)
        return g, roots, text

    def impl(self, case):
        from rv import bzlshim
        try:
            g, roots, text = self._text(case)
        except Exception as ex:
            return {"write_error": type(ex).__name__, "text": str(ex)[:150]}
        out = {"text": text}
        rr, u = bzlshim.reqs_repo()
        try:
            res = rr["parse_lockfile"](text, "hub", {}, bzlshim.Label(LOCK_LABEL))
            out["loaded"] = {k: {"package": v["package"], "version": v["version"], "sha256": v["sha256"], "url": v["url"], "whl": v["whl"],
                                 "via": sorted(v["via"]), "deps": sorted(v["deps"])} for k, v in res.items()}
            out["order"] = list(res)
        except bzlshim.BzlFail as ex:
            out["fail"] = str(ex)[:200]
        except Exception as ex:
            out["error"] = type(ex).__name__ + ": " + str(ex)[:150]
        # expectation from the graph
        pins, edges = TL.graph_summary(g, roots, active_only=True)
        exp = {}
        san = u["sanitize_package_name"]
        name_of = {n.key: n.metadata.name for n in g.nodes.values() if n.metadata is not None and not n.metadata.meta}
        for k, p in pins.items():
            deps = sorted({san(name_of[e[1]]) for e in edges if GL.norm(e[0]) == k and e[1] in pins and e[0] in name_of.values() or (e[0] == k)} & set())
            exp[san(name_of[k])] = {"version": p["version"], "sha256": (p["hash"] or "").split(":", 1)[-1], "loc": p["url"]}
        # deps: p requires q  <=>  edge (p -> q)
        for e in edges:
            if e[0] in pins and e[1] in pins:
                exp[san(name_of[e[0]])].setdefault("deps", set()).add(san(name_of[e[1]]))
        for v in exp.values():
            v["deps"] = sorted(v.get("deps", set()))
        out["expected"] = exp
        return out

    def model_request(self, case, r):
        if "text" not in r or "write_error" in r:
            return None
        return {"op": "load-bazel", "lines": r["text"].splitlines(), "repository": "@ws", "package": "third_party/python"}

    def compare(self, case, r, m):
        if "fail" in m:
            return "fail" in r
        if "loaded" not in r:
            return False
        got = {}
        for e in m["entries"]:
            got[e["key"]] = {"package": e["package"], "version": e["version"], "sha256": e["sha256"], "url": e["url"], "whl": e["whl"],
                             "via": sorted(e["via"]), "deps": sorted(e["deps"])}
        return got == r["loaded"]

    def flags(self, case, r):
        og = case["og"]
        fl = []
        if len(og["wheel_dirs"]) > 1:
            fl.append("several-find-links")
        if any("/" in d for d in og["wheel_dirs"]):
            fl.append("nested-or-parent-wheel-dir")
        if any(p["link"][0] in og["wheel_dirs"] for p in og["pins"]):
            fl.append("find-links-wheel")
        if any(p["link"][1].endswith(".tar.gz") or ".tar.gz#" in p["link"][1] for p in og["pins"]):
            fl.append("sdist")
        if any("/" in i["name"] for i in og["inputs"]):
            fl.append("path-requirer")
        if "fail" in r:
            fl.append("loader-fails")
        return fl

    def oracle(self, case, r):
        if "write_error" in r:
            return [("C19/writer-raises-" + r["write_error"], r)]
        if "error" in r:
            return [("C19/loader-crashes", {"error": r["error"]})]
        if "fail" in r:
            return [("C19/own-lock-rejected", {"fail": r["fail"]})]
        fails = []
        exp, got = r["expected"], r["loaded"]
        if sorted(exp) != sorted(got):
            fails.append(("C19/pinned-projects-differ", {"expected": sorted(exp), "loaded": sorted(got)}))
            return fails
        for k, e in exp.items():
            gk = got[k]
            if gk["version"] != e["version"]:
                fails.append(("C19/version-differs", {"pin": k, "written": e["version"], "loaded": gk["version"]}))
            if gk["sha256"] != e["sha256"]:
                fails.append(("C19/sha256-differs", {"pin": k}))
            loc = e["loc"]
            if loc.startswith(("http://", "https://")):
                if gk["url"] != loc:
                    fails.append(("C19/url-differs", {"pin": k, "written": loc, "loaded": gk["url"]}))
            else:
                want = self._label(loc)
                if gk["whl"] != want:
                    fails.append(("C19/wheel-label-differs", {"pin": k, "written": loc, "loaded": gk["whl"], "expected": want}))
            if gk["deps"] != e["deps"]:
                fails.append(("C19/deps-differ", {"pin": k, "expected": e["deps"], "loaded": gk["deps"]}))
        return fails

    @staticmethod
    def _label(path):
        """the label of a wheel given by its path relative to the lock file's package"""
        pkg = "third_party/python".split("/")
        parts = path.split("/")
        while parts and parts[0] == "..":
            parts.pop(0)
            pkg = pkg[:-1]
        if path.startswith(".."):
            # the file sits in <pkg minus the parents>/<what follows the dots>: the directory that holds the wheel
            # directory is the package, the wheel directory and the file name are the target
            return "@ws//%s:%s" % ("/".join(pkg + parts[:-2]), "/".join(parts[-2:]))
        return "@ws//third_party/python:%s" % path

    def shrink(self, case):
        og = case["og"]
        for i in range(len(og["pins"]) - 1, 0, -1):
            name = og["pins"][i]["name"]
            pins = [dict(p, reqs=[q for q in p["reqs"] if GL.norm(GL.P(q).name) != GL.norm(name)]) for j, p in enumerate(og["pins"]) if j != i]
            inputs = [dict(inp, reqs=[q for q in inp["reqs"] if GL.norm(GL.P(q).name) != GL.norm(name)]) for inp in og["inputs"]]
            inputs = [inp for inp in inputs if inp["reqs"]]
            if inputs:
                yield dict(case, og=dict(og, pins=pins, inputs=inputs))


class CheckedInLocks(Stream):
    """the lock files checked into the repository, through the shim and the model"""
    name = "checked-in-locks"
    quick_n = 0
    thorough_n = 0
    batch = 50

    def corpus(self):
        import glob
        repo = os.environ.get("VERIF_REPO", "/repo")
        out = []
        for f in sorted(glob.glob(os.path.join(repo, "private", "tests", "**", "requirements*.txt"), recursive=True)) + \
                sorted(glob.glob(os.path.join(repo, "3rdparty", "requirements*.txt"))):
            out.append({"file": os.path.relpath(f, repo)})
        return out

    def generate(self, rng):
        return {"file": "3rdparty/requirements.linux_x86_64.txt"}

    def impl(self, case):
        from rv import bzlshim
        repo = os.environ.get("VERIF_REPO", "/repo")
        path = os.path.join(repo, case["file"])
        if not os.path.exists(path):
            return {"missing": True}
        with open(path) as f:
            text = f.read()
        rr, u = bzlshim.reqs_repo()
        pkg = os.path.dirname(case["file"])
        try:
            res = rr["parse_lockfile"](text, "hub", {}, bzlshim.Label("@ws//%s:%s" % (pkg, os.path.basename(case["file"]))))
            loaded = {k: {"package": v["package"], "version": v["version"], "sha256": v["sha256"], "url": v["url"], "whl": v["whl"],
                          "via": sorted(v["via"]), "deps": sorted(v["deps"])} for k, v in res.items()}
            return {"text": text, "loaded": loaded, "pkg": pkg}
        except bzlshim.BzlFail as ex:
            return {"text": text, "fail": str(ex)[:200], "pkg": pkg}
        except Exception as ex:
            return {"text": text, "error": type(ex).__name__ + ": " + str(ex)[:100], "pkg": pkg}

    def model_request(self, case, r):
        if "text" not in r:
            return None
        return {"op": "load-bazel", "lines": r["text"].splitlines(), "repository": "@ws", "package": r["pkg"]}

    def compare(self, case, r, m):
        if "fail" in m:
            return "fail" in r
        if "loaded" not in r:
            return False
        got = {}
        for e in m["entries"]:
            got[e["key"]] = {"package": e["package"], "version": e["version"], "sha256": e["sha256"], "url": e["url"], "whl": e["whl"],
                             "via": sorted(e["via"]), "deps": sorted(set(e["deps"]))}
        return got == r["loaded"]

    def flags(self, case, r):
        return ["checked-in"] + (["fails"] if "fail" in r or "error" in r else [])

    def oracle(self, case, r):
        if "error" in r:
            return [("C19/loader-crashes-on-checked-in-lock", {"file": case["file"], "error": r["error"]})]
        return []


class RealFindLinks(BazelStream):
    """the wheels are real files in find-links directories below the lock's package and are solved by the real
    FindLinksRepository (relative_to = the lock's directory, as the Bazel front-end builds it): the location lines
    are the ones the real repository hands out"""
    name = "bazel-real-find-links"
    quick_n = 120
    thorough_n = 6000
    batch = 40

    def generate(self, rng):
        og = gen_bazel_og(rng)
        dirs = og["wheel_dirs"] or [rng.choice(WHEEL_DIRS)]
        og["wheel_dirs"] = dirs
        for p in og["pins"]:
            d = rng.choice(dirs)
            fn = "%s-%s-py3-none-any.whl" % (p["name"].replace("-", "_"), p["version"])
            p["link"] = [d, d + "/" + fn]
        og["indexes"] = []
        return {"og": og}

    def _text(self, case):
        from req_compile.repos.findlinks import FindLinksRepository
        from req_compile.repos.multi import MultiRepository
        from req_compile.compile import perform_compile
        from req_compile.containers import RequirementsFile
        from rv.bazelfe import load_private_compiler
        from rv.core import digest
        import contextlib
        import io
        og = case["og"]
        GL.reset_caches()
        base = os.path.join(self.tmp, digest(case) + "r")
        ws = os.path.join(base, "ws", "third_party", "python")
        os.makedirs(ws, exist_ok=True)
        repos = []
        for d in og["wheel_dirs"]:
            full = os.path.normpath(os.path.join(ws, d))
            os.makedirs(full, exist_ok=True)
        for p in og["pins"]:
            full = os.path.normpath(os.path.join(ws, p["link"][1]))
            extras = sorted({e for r in p["reqs"] for e in ("x", "y") if 'extra == "%s"' % e in r})
            with open(full, "wb") as f:
                f.write(B.wheel_bytes(p["name"], p["version"], requires=p["reqs"], extras=extras))
        for d in og["wheel_dirs"]:
            repos.append(FindLinksRepository(os.path.normpath(os.path.join(ws, d)), relative_to=ws))
        repo = MultiRepository(*repos) if len(repos) > 1 else repos[0]
        ins = [RequirementsFile(i["name"], [GL.P(r) for r in i["reqs"]]) for i in og["inputs"]]
        try:
            with contextlib.redirect_stderr(io.StringIO()):
                g, roots = perform_compile(ins, repo)
            pc = load_private_compiler()
            header = pc._HEADER.format(custom_compile_command="bazel run //:reqs.update", python="3.12.1", platform="Linux")
            text = header + TL.write_text(g, roots, repo, ins, urls=True, hashes=True, multiline=True)
        finally:
            shutil.rmtree(base, ignore_errors=True)
        return g, roots, text


class LockRegenerated(Stream):
    """history: `bazel run //pkg:requirements.update` twice over its own lock (the real private/compiler.py, the second run
    reads the first lock back as the solution), the find-links directory gains versions in between; each generation of
    the lock goes through the Starlark loader, which must accept both and recover the same pins"""
    name = "lock-regenerated"
    quick_n = 40
    thorough_n = 1500
    batch = 10
    parallel_quick = 4
    shrink_budget = 30

    def setup(self):
        from rv.props.c05 import BazelUpdate
        self.inner = BazelUpdate()
        self.inner.setup()

    def teardown(self):
        self.inner.teardown()

    def generate(self, rng):
        case = self.inner.generate(rng)
        # requirers on both sides of what they require in the alphabet (the lock is sorted by name)
        if rng.random() < 0.6:
            names = sorted(case["universe"])
            if len(names) >= 2:
                hi, lo = names[-1], names[0]
                for v in case["universe"][hi]:
                    if not any(GL.norm(GL.P(t).name) == GL.norm(lo) for t in case["universe"][hi][v]):
                        case["universe"][hi][v] = case["universe"][hi][v] + [lo]
                case["inputs"] = [[hi]]
        return case

    @staticmethod
    def _load(text):
        from rv import bzlshim
        rr, u = bzlshim.reqs_repo()
        full = "## generated\n" + text
        try:
            res = rr["parse_lockfile"](full, "hub", {}, bzlshim.Label("@ws//pkg:requirements.txt"))
            return {"pins": {k: [v["version"], v["sha256"], v["whl"] or v["url"], sorted(v["deps"])] for k, v in res.items()}}
        except bzlshim.BzlFail as ex:
            return {"fail": str(ex)[:200]}
        except Exception as ex:
            return {"error": type(ex).__name__ + ": " + str(ex)[:150]}

    def impl(self, case):
        r = self.inner.impl(case)
        out = {"first_code": r["first"]["code"], "exc": r["first"]["exception"]}
        if "again" in r and r["first"]["code"] == 0 and not r["first"]["exception"]:
            out["gen1"] = self._load(r["first"]["text"])
            out["again_code"] = r["again"]["code"]
            out["gen2"] = self._load(r["again"]["text"])
        return out

    def flags(self, case, r):
        fl = ["first-exit:%s" % r["first_code"]]
        if "gen2" in r:
            fl.append("second-generation-loaded")
            if "pins" in r["gen1"] and any(d for _, _, _, d in r["gen1"]["pins"].values()):
                fl.append("lock-with-dependency-edges")
        return fl

    def oracle(self, case, r):
        if "gen2" not in r:
            return []
        fails = []
        for gen in ("gen1", "gen2"):
            if "fail" in r[gen] or "error" in r[gen]:
                fails.append(("C19/own-lock-rejected/%s" % ("first-generation" if gen == "gen1" else "regenerated"), r[gen]))
        if not fails and r["gen1"] != r["gen2"]:
            fails.append(("C19/regenerated-lock-loads-differently", {"first": r["gen1"], "second": r["gen2"]}))
        return fails

    def shrink(self, case):
        return self.inner.shrink(case)


class BazelLayouts(Stream):
    """workspace layouts of the Bazel front-end (the real private/compiler.py): one or two requirement inputs in different
    packages, each declaring a `--find-links` directory relative to itself and needing a wheel only that directory has;
    the lock beside the first input, in a sub-package of it, or in a package of its own.  The lock goes through the
    Starlark loader under the label of the package it really sits in: every wheel label it returns must name the file the
    compiler used (it exists, its SHA-256 is the recorded one)"""
    name = "bazel-layouts"
    quick_n = 40
    thorough_n = 1500
    batch = 10
    parallel_quick = 4
    prop = "C19"

    def setup(self):
        import tempfile
        self.tmp = tempfile.mkdtemp(prefix="rvc19l")

    def teardown(self):
        import shutil
        shutil.rmtree(getattr(self, "tmp", ""), ignore_errors=True)

    def generate(self, rng):
        inputs = [{"pkg": "pkg", "links": rng.choice(["wheels", "wheeldir", "../third_party/wheels", "vendor/whl"]), "project": "alpha"}]
        if rng.random() < 0.6:
            inputs.append({"pkg": rng.choice(["tools", "pkg/sub", "apps/cli"]), "links": rng.choice(["wheels", "deps/wheels"]), "project": "beta"})
            if rng.random() < 0.5:
                inputs.reverse()
        return {"inputs": inputs, "lock_pkg": rng.choice([None, None, "locks", "3rdparty/locks", "SUB/locks"]),
                "dep": rng.random() < 0.5}

    def impl(self, case):
        import contextlib
        import hashlib
        import io
        import json as _json
        import shutil
        from rv import backends as B
        from rv.bazelfe import load_private_compiler
        from rv.core import digest
        from rv.props.c05 import _Runfiles
        GL.reset_caches()
        pc = load_private_compiler()
        root = os.path.join(self.tmp, digest(case))
        shutil.rmtree(root, ignore_errors=True)
        ws = os.path.join(root, "ws")
        files = {}
        args = []
        for i, inp in enumerate(case["inputs"]):
            d = os.path.join(ws, inp["pkg"])
            os.makedirs(d, exist_ok=True)
            wd = os.path.normpath(os.path.join(d, inp["links"]))
            n = inp["project"]
            wheels = {B.wheel_name(n, "1.0"): B.wheel_bytes(n, "1.0", requires=(["common-%s" % n] if case["dep"] else []))}
            if case["dep"]:
                wheels[B.wheel_name("common-%s" % n, "2.0")] = B.wheel_bytes("common-%s" % n, "2.0")
            B.write_findlinks(wd, wheels)
            for fn, data in wheels.items():
                files[fn] = (os.path.join(wd, fn), hashlib.sha256(data).hexdigest())
            with open(os.path.join(d, "requirements.in"), "w") as f:
                f.write("--find-links %s\n\n%s\n" % (inp["links"], n))
            args += ["--requirements_file", os.path.join("ws", inp["pkg"], "requirements.in")]
        first_pkg = case["inputs"][0]["pkg"]
        lock_pkg = first_pkg if case["lock_pkg"] is None else (case["lock_pkg"].replace("SUB", first_pkg))
        os.makedirs(os.path.join(ws, lock_pkg), exist_ok=True)
        lock = os.path.join(ws, lock_pkg, "requirements.txt")
        open(lock, "w").close()
        argv = args + ["--solution", os.path.join("ws", lock_pkg, "requirements.txt"),
                       "--custom_compile_command", _json.dumps("bazel run //%s:requirements.update" % lock_pkg),
                       "--output", os.path.join(lock_pkg, "requirements.txt"), "--no_index"]
        old_ws = os.environ.get("BUILD_WORKSPACE_DIRECTORY")
        os.environ["BUILD_WORKSPACE_DIRECTORY"] = ws
        out, err = io.StringIO(), io.StringIO()
        res = {"code": 0, "exception": None}
        try:
            with contextlib.redirect_stdout(out), contextlib.redirect_stderr(err):
                try:
                    pc.compile_main(pc.parse_args(argv), _Runfiles(root))
                except SystemExit as ex:
                    res["code"] = ex.code if isinstance(ex.code, int) else 1
                except Exception as ex:
                    res["exception"] = type(ex).__name__ + ": " + str(ex)[:200]
        finally:
            if old_ws is None:
                os.environ.pop("BUILD_WORKSPACE_DIRECTORY", None)
            else:
                os.environ["BUILD_WORKSPACE_DIRECTORY"] = old_ws
        res["stderr"] = err.getvalue()[-400:]
        with open(lock) as f:
            text = f.read()
        res["lock"] = text
        if res["code"] == 0 and not res["exception"]:
            from rv import bzlshim
            rr, u = bzlshim.reqs_repo()
            try:
                loaded = rr["parse_lockfile"](text, "hub", {}, bzlshim.Label("@ws//%s:requirements.txt" % lock_pkg))
                pins = {}
                for k, v in loaded.items():
                    whl = v["whl"]
                    entry = {"version": v["version"], "sha256": v["sha256"], "whl": str(whl) if whl else None, "deps": sorted(v["deps"])}
                    if whl:
                        m = re.match(r"^@?@?[A-Za-z0-9_.-]*//([^:]*):(.*)$", str(whl))
                        if m:
                            path = os.path.normpath(os.path.join(ws, m.group(1), m.group(2)))
                            entry["file_exists"] = os.path.isfile(path)
                            if entry["file_exists"]:
                                with open(path, "rb") as f:
                                    entry["file_sha256"] = hashlib.sha256(f.read()).hexdigest()
                    pins[k] = entry
                res["loaded"] = pins
            except bzlshim.BzlFail as ex:
                res["load_fail"] = str(ex)[:200]
            except Exception as ex:
                res["load_error"] = type(ex).__name__ + ": " + str(ex)[:150]
        res["expected_files"] = {fn: list(v) for fn, v in files.items()}
        shutil.rmtree(root, ignore_errors=True)
        return res

    def flags(self, case, r):
        fl = ["inputs:%d" % len(case["inputs"]), "lock-beside-the-input" if case["lock_pkg"] is None else "lock-in-another-package", "exit:%s" % r["code"]]
        if any(i["links"].startswith("..") for i in case["inputs"]):
            fl.append("find-links-above-the-package")
        return fl

    def oracle(self, case, r):
        P = self.prop
        if r["exception"]:
            return [("%s/bazel-compile-raises" % P, {"exception": r["exception"]})]
        want = set()
        for i in case["inputs"]:
            want.add(GL.norm(i["project"]))
            if case["dep"]:
                want.add(GL.norm("common-%s" % i["project"]))
        if r["code"] != 0:
            return [("%s/bazel-front-end-does-not-find-what-an-input-files-find-links-offers" % P, {"exit": r["code"], "stderr": r["stderr"]})]
        if P == "C16":
            got = {GL.norm(m.group(1)) for m in re.finditer(r"^([A-Za-z0-9._-]+)==", r["lock"], re.M)}
            if got != want:
                return [("C16/bazel-front-end-pins-differ-from-the-inputs-closure", {"pins": sorted(got), "expected": sorted(want)})]
            return []
        if "load_fail" in r or "load_error" in r:
            return [("C19/own-lock-rejected", {k: r[k] for k in ("load_fail", "load_error") if k in r})]
        fails = []
        got = set(r["loaded"])
        if {k.replace("-", "_") for k in got} != {k.replace("-", "_") for k in want}:
            fails.append(("C19/pins-differ", {"loaded": sorted(got), "expected": sorted(want)}))
        for k, e in r["loaded"].items():
            if e["whl"] is None:
                fails.append(("C19/find-links-wheel-without-label", {"pin": k}))
            elif not e.get("file_exists"):
                fails.append(("C19/wheel-label-names-no-file", {"pin": k, "label": e["whl"], "lock": r["lock"][-500:]}))
            elif e.get("file_sha256") != e["sha256"]:
                fails.append(("C19/wheel-label-names-another-file", {"pin": k, "label": e["whl"]}))
        return fails[:2]

    def shrink(self, case):
        if len(case["inputs"]) > 1:
            yield dict(case, inputs=case["inputs"][:1])
            yield dict(case, inputs=case["inputs"][1:])
        if case["lock_pkg"] is not None:
            yield dict(case, lock_pkg=None)
        if case["dep"]:
            yield dict(case, dep=False)


def streams():
    return [BazelStream(), CheckedInLocks(), RealFindLinks(), LockRegenerated(), BazelLayouts()]
