"""C20 — Installable wheels are never rejected, foreign ones never accepted."""
from __future__ import annotations

import contextlib
import re
import types

from rv.core import Stream
from rv import genfiles

RULE = ("wheel file names with tag triples / compressed sets drawn from packaging's sys_tags() of the running interpreter and from "
        "foreign interpreters, ABIs, platforms; the full sys_tags() table is enumerated every run (exhaustive for the running "
        "configuration); synthetic interpreter configurations by patching the module constants; shuffled multisets of one version "
        "for the ranking; non-trivial = the case hits a flag (compressed set, foreign category, manylinux policy, tie, ...)")
ASSUMPTIONS = [
    "packaging.tags.sys_tags() is the reference for 'a tag the running interpreter supports on this platform'",
    "no _manylinux override module is installed in the model-backed streams (the model has no such branch); the `site-override` stream installs one and judges the code against packaging.tags only",
    "Darwin/Windows branches of _get_platform_tags are not executable here: modelled only through PLATFORM_TAGS, not validated",
    "python tags / platform tags are ASCII alphanumerics and underscores (int()/isalpha() are modelled on ASCII)",
]
TRUSTED_EXTRA = ["decide +kernel over the regenerated table Gen.sysTags (kernel evaluation, no extra axiom)"]


def env_json(R):
    import sys as _sys
    sysmod = R.sys
    g = R.get_glibc_version()
    return {"impl": R.INTERPRETER_TAG, "major": sysmod.version_info.major, "minor": sysmod.version_info.minor,
            "abiTags": list(R.ABI_TAGS), "platTags": list(R.PLATFORM_TAGS), "glibc": list(g) if g else [],
            "arch": R.get_system_arch(), "aliases": [{"k": k, "v": v} for k, v in R.LEGACY_ALIASES.items()]}


def cand_request(R, c, fn):
    pys = sorted(c.py_version.py_versions) if (c.py_version is not None and c.py_version.py_versions) else []
    return {"op": "tags", "env": env_json(R), "pys": pys, "hasPy": c.py_version is not None, "abi": c.abi,
            "plats": list(c.platforms), "space": isinstance(c.filename, str) and " " in c.filename}


def wheel_parts(fn):
    parts = fn[:-4].split("-")
    if len(parts) == 6:
        parts.pop(2)
    return parts[2].split("."), parts[3], parts[4].split(".")


_FOREIGN_PLAT = re.compile(r"^(win32|win_.*|macosx_.*|musllinux_.*|linux_(?!x86_64$).*|manylinux.*_(aarch64|i686|ppc64le|s390x|armv7l))$")


class TagStream(Stream):
    """eligibility + specificity score of single wheels on the running interpreter vs the model, judged against packaging."""
    name = "tags"
    quick_n = 5000
    thorough_n = 300000
    batch = 1000

    def setup(self):
        import packaging.tags
        self.sys_tags = set(packaging.tags.sys_tags())

    def corpus(self):
        import packaging.tags
        # the whole supported-tag table of this interpreter, every run (exhaustive for the running configuration)
        out = [{"fn": "foo-1.0-%s-%s-%s.whl" % (t.interpreter, t.abi, t.platform)} for t in packaging.tags.sys_tags()]
        out.append({"fn": "foo-1.0-cp312-cp312.abi3-linux_x86_64.whl"})  # D20 witness (fixed)
        out.append({"fn": "foo-1.0-py3-none.cp311-any.whl"})
        out.append({"fn": "foo-1.0-py3-none-any.manylinux1_x86_64.whl"})
        return out

    def generate(self, rng):
        import packaging.tags
        k = rng.random()
        if k < 0.35:
            # compressed sets around supported tags
            ts = rng.sample(sorted(self.sys_tags, key=str), 3)
            t = ts[0]
            pys = [t.interpreter] + ([rng.choice(genfiles.PY_TAGS_BAD + genfiles.PY_TAGS_OK)] if rng.random() < 0.5 else [])
            plats = [t.platform] + ([rng.choice(genfiles.PLAT_BAD + genfiles.PLAT_OK)] if rng.random() < 0.5 else [])
            abi = t.abi if rng.random() < 0.9 else t.abi + "." + rng.choice(genfiles.ABI_OK + genfiles.ABI_BAD)
            rng.shuffle(pys)
            rng.shuffle(plats)
            fn = "foo-1.0-%s-%s-%s.whl" % (".".join(pys), abi, ".".join(plats))
        else:
            fn = genfiles.gen_wheel_name(rng, "foo", "1.0", p_bad=0.45)
        if rng.random() < 0.03:
            fn = fn.replace("foo-", "fo o-", 1)
        return {"fn": fn}

    def _cand(self, case):
        from req_compile.repos import repository as R
        return R, R.filename_to_candidate("http://x/" + case["fn"], case["fn"])

    def impl(self, case):
        R, c = self._cand(case)
        if c is None:
            return {"unparsed": True}
        try:
            el = R.check_usability(None, c, has_equality=True, allow_prereleases=True) is None
            sc = list(c.tag_score)
        except Exception as ex:
            return {"error": type(ex).__name__}
        out = {"eligible": el, "score": sc}
        if len(c.platforms) > 1:
            # the platform tags are a set in the code: present them in both orders (a list iterates as given)
            scores = []
            for order in (sorted(c.platforms), sorted(c.platforms, reverse=True)):
                _, c2 = self._cand(case)
                c2.platforms = order
                scores.append(list(c2.tag_score))
            out["ordered"] = scores
        return out

    def model_request(self, case, r):
        if "unparsed" in r or "error" in r:
            return None
        R, c = self._cand(case)
        return cand_request(R, c, case["fn"])

    def compare(self, case, r, m):
        return r.get("eligible") == m.get("eligible") and r.get("score") == m.get("score")

    def _classify(self, case):
        import packaging.tags
        pys, abi, plats = wheel_parts(case["fn"])
        triples = set()
        for p in pys:
            for a in abi.split("."):
                for pl in plats:
                    triples.add(packaging.tags.Tag(p, a, pl))
        supported = bool(triples & self.sys_tags)
        other_major = all(re.match(r"^[a-z]{2}(\d)", p) and re.match(r"^[a-z]{2}(\d)", p).group(1) != "3" for p in pys)
        foreign_abi = all(a not in ("none", "abi3", "cp312") for a in abi.split("."))
        # built only for interpreters newer than the running one (cp313-abi3: the stable ABI *as of 3.13*; py313): an ABI
        # generation this interpreter does not have
        import sys as _sys
        newer = [re.match(r"^(?:cp|py)%d(\d+)$" % _sys.version_info.major, p) for p in pys]
        if all(newer) and all(int(m.group(1)) > _sys.version_info.minor for m in newer):
            other_major = True
        foreign_plat = all(_FOREIGN_PLAT.match(pl) or re.match(r"^manylinux_(3_\d+|2_(3[7-9]|[4-9]\d))_", pl) for pl in plats)
        return supported, other_major, foreign_abi, foreign_plat, len(abi.split(".")) > 1

    def flags(self, case, r):
        if "unparsed" in r:
            return ["unparsed"]
        if "error" in r:
            return ["error"]
        supported, other_major, foreign_abi, foreign_plat, cabi = self._classify(case)
        pys, abi, plats = wheel_parts(case["fn"])
        fl = ["eligible" if r["eligible"] else "rejected"]
        if supported:
            fl.append("supported")
        if len(pys) > 1 or len(plats) > 1:
            fl.append("compressed-set")
        if cabi:
            fl.append("compressed-abi")
        for n, b in (("other-major", other_major), ("foreign-abi", foreign_abi), ("foreign-platform", foreign_plat)):
            if b:
                fl.append(n)
        if any(p.startswith("manylinux") for p in plats):
            fl.append("manylinux")
        return fl

    def oracle(self, case, r):
        if "unparsed" in r:
            return []
        if "error" in r:
            return [("C20/raises-" + r["error"], r)]
        supported, other_major, foreign_abi, foreign_plat, cabi = self._classify(case)
        fails = []
        if "ordered" in r and (r["ordered"][0] != r["ordered"][1] or r["ordered"][0] != r["score"]):
            fails.append(("C20/score-depends-on-platform-order", {"fn": case["fn"], "scores": r["ordered"], "as-set": r["score"]}))
        if supported and not r["eligible"]:
            fails.append(("C20/supported-rejected" + ("/compressed-abi" if cabi else ""), {"fn": case["fn"]}))
        if (other_major or foreign_abi or foreign_plat) and not supported and r["eligible"]:
            fails.append(("C20/foreign-accepted", {"fn": case["fn"], "other_major": other_major, "foreign_abi": foreign_abi, "foreign_plat": foreign_plat}))
        return fails


SYNTH = [
    {"impl": "cp", "major": 3, "minor": 9, "abi": ["abi3", "cp39"], "plat": ["linux_aarch64"], "glibc": (2, 17), "arch": "aarch64"},
    {"impl": "cp", "major": 3, "minor": 7, "abi": ["abi3", "cp37m"], "plat": ["linux_x86_64"], "glibc": (2, 5), "arch": "x86_64"},
    {"impl": "pp", "major": 3, "minor": 10, "abi": ["abi3", "pp310"], "plat": ["linux_x86_64"], "glibc": None, "arch": "x86_64"},
    {"impl": "cp", "major": 3, "minor": 13, "abi": ["abi3", "cp313"], "plat": ["win_amd64"], "glibc": None, "arch": "AMD64"},
    {"impl": "cp", "major": 2, "minor": 7, "abi": ["abi2", "cp27mu"], "plat": ["linux_i686"], "glibc": (2, 12), "arch": "i686"},
    {"impl": "cp", "major": 3, "minor": 12, "abi": ["abi3", "cp312"], "plat": ["macosx_11_0_arm64", "macosx_11_0_universal2", "macosx_10_16_universal2"], "glibc": None, "arch": "arm64"},
]


@contextlib.contextmanager
def synthetic(R, cfg):
    saved = (R.INTERPRETER_TAG, R.ABI_TAGS, R.PLATFORM_TAGS, R.sys, R.get_glibc_version, R.get_system_arch, R.PY_VERSION_NUM)
    try:
        R.INTERPRETER_TAG = cfg["impl"]
        R.ABI_TAGS = tuple(cfg["abi"])
        R.PLATFORM_TAGS = tuple(cfg["plat"])
        R.sys = types.SimpleNamespace(version_info=types.SimpleNamespace(major=cfg["major"], minor=cfg["minor"]), platform="linux")
        R.get_glibc_version = lambda: cfg["glibc"]
        R.get_system_arch = lambda: cfg["arch"]
        yield
    finally:
        (R.INTERPRETER_TAG, R.ABI_TAGS, R.PLATFORM_TAGS, R.sys, R.get_glibc_version, R.get_system_arch, R.PY_VERSION_NUM) = saved


class SynthStream(Stream):
    """the same predicates under synthetic interpreter configurations (module constants patched in-process)"""
    name = "tags-synthetic"
    quick_n = 3000
    thorough_n = 150000
    batch = 1000

    def generate(self, rng):
        fn = genfiles.gen_wheel_name(rng, "foo", "1.0", p_bad=0.5)
        if rng.random() < 0.5:
            cfgi = rng.randrange(len(SYNTH))
            cfg = SYNTH[cfgi]
            py = rng.choice(["%s%d%d" % (cfg["impl"], cfg["major"], cfg["minor"]), "py%d" % cfg["major"], "%s%d" % (cfg["impl"], cfg["major"]),
                             "%s%d%d" % (cfg["impl"], cfg["major"], cfg["minor"] + 1), "py%d%d" % (cfg["major"], max(0, cfg["minor"] - 2))])
            abi = rng.choice(cfg["abi"] + ["none", "cp312", "abi3"])
            a = cfg["arch"]
            plat = rng.choice(cfg["plat"] + ["any", "manylinux_2_5_" + a, "manylinux_2_17_" + a, "manylinux_2_28_" + a, "manylinux2014_" + a, "manylinux1_" + a, "manylinux2010_x86_64"])
            fn = "foo-1.0-%s-%s-%s.whl" % (py, abi, plat)
            return {"fn": fn, "cfg": cfgi}
        return {"fn": fn, "cfg": rng.randrange(len(SYNTH))}

    def impl(self, case):
        from req_compile.repos import repository as R
        with synthetic(R, SYNTH[case["cfg"]]):
            c = R.filename_to_candidate("http://x/" + case["fn"], case["fn"])
            if c is None:
                return {"unparsed": True}
            try:
                el = R.check_usability(None, c, has_equality=True, allow_prereleases=True) is None
                sc = list(c.tag_score)
            except Exception as ex:
                return {"error": type(ex).__name__}
            return {"eligible": el, "score": sc, "req": cand_request(R, c, case["fn"])}

    def model_request(self, case, r):
        return r.get("req")

    def compare(self, case, r, m):
        return r.get("eligible") == m.get("eligible") and r.get("score") == m.get("score")

    def flags(self, case, r):
        if "eligible" not in r:
            return ["unparsed-or-error"]
        return ["cfg%d" % case["cfg"], "eligible" if r["eligible"] else "rejected"]

    def oracle(self, case, r):
        if "error" in r:
            return [("C20/raises-" + r["error"], r)]
        return []


class RankStream(Stream):
    """sort_candidates on shuffled multisets of one version: wheels before sdists, order independent of the listing."""
    name = "rank"
    quick_n = 2500
    thorough_n = 120000
    batch = 500

    def corpus(self):
        return [{"files": ["foo-1.0-cp312-abi3-linux_x86_64.whl", "foo-1.0-cp312-none-linux_x86_64.whl", "foo-1.0.tar.gz"], "perm": [2, 1, 0]},
                {"files": ["foo-1.0-py3-none-manylinux1_x86_64.whl", "foo-1.0-py3-none-manylinux_2_5_x86_64.whl"], "perm": [1, 0]}]

    NEAR = ["manylinux1_x86_64", "manylinux_2_5_x86_64", "manylinux2010_x86_64", "manylinux_2_12_x86_64", "manylinux2014_x86_64",
            "manylinux_2_17_x86_64", "linux_x86_64", "any", "win32", "win_amd64", "macosx_10_9_x86_64"]

    def generate(self, rng):
        n = rng.choice([2, 3, 4, 5, 6])
        files = []
        if rng.random() < 0.3:
            # near ties: builds of one version for one interpreter and ABI whose platform tag sets overlap, alias each
            # other or are incomparable (neither a subset of the other) - the usual shape of a project's file list
            py, abi = rng.choice([("cp312", "cp312"), ("cp312", "abi3"), ("py3", "none"), ("cp38", "abi3"), ("py2.py3", "none")])
            for _ in range(20):
                if len(files) >= n:
                    break
                plats = sorted(rng.sample(self.NEAR, rng.choice([1, 2, 2, 3])))
                rng.shuffle(plats)
                build = rng.choice(["", "", "", "1-", "2-"])
                f = "foo-1.0-%s%s-%s-%s.whl" % (build, py, abi if rng.random() < 0.85 else "none", ".".join(plats))
                if f not in files:
                    files.append(f)
            if rng.random() < 0.3:
                files.append("foo-1.0.tar.gz")
                n = len(files)
            n = len(files)
        while len(files) < n:
            if rng.random() < 0.2:
                f = genfiles.gen_sdist_name(rng, "foo", "1.0")
            else:
                f = genfiles.gen_wheel_name(rng, "foo", "1.0", p_bad=0.1)
            if f not in files:
                files.append(f)
        perm = list(range(n))
        rng.shuffle(perm)
        return {"files": files, "perm": perm}

    def _cands(self, files):
        from req_compile.repos import repository as R
        return R, [R.filename_to_candidate("http://x/" + f, f) for f in files]

    def impl(self, case):
        R, cs = self._cands(case["files"])
        R2, cs2 = self._cands([case["files"][i] for i in case["perm"]])
        a = [c.filename for c in R.sort_candidates([c for c in cs if c is not None])]
        b = [c.filename for c in R.sort_candidates([c for c in cs2 if c is not None])]
        return {"order": a, "order_permuted": b}

    def model_request(self, case, r):
        from rv.props.c03 import rank
        R, cs = self._cands(case["files"])
        live = [(i, c) for i, c in enumerate(cs) if c is not None]
        er = rank([str(c.extra_sort_info) for _, c in live] + [""])
        tr = rank([c.tag_score for _, c in live])
        fr = rank([c.filename or "" for _, c in live])
        cands = [{"id": i, "nameOk": True, "ver": 1, "isPre": False, "tagsOk": True, "specOk": True, "specOkPre": True,
                  "typ": int(c.type.value), "extra": er[str(c.extra_sort_info)], "tag": tr[c.tag_score], "readable": True, "file": fr[c.filename or ""]} for i, c in live]
        return {"op": "sort-cands", "cands": cands}

    def compare(self, case, r, m):
        return r["order"] == [case["files"][i] for i in m]

    def flags(self, case, r):
        fl = []
        if r["order"] != r["order_permuted"]:
            fl.append("order-dependent")
        if any(not f.endswith(".whl") for f in case["files"]):
            fl.append("with-sdist")
        if case["perm"] != sorted(case["perm"]):
            fl.append("shuffled")
        return fl

    def oracle(self, case, r):
        fails = []
        seen_sdist = False
        for f in r["order"]:
            if not f.endswith(".whl"):
                seen_sdist = True
            elif seen_sdist:
                fails.append(("C20/sdist-ranked-before-wheel", r))
                break
        if r["order"] != r["order_permuted"]:
            R, cs = self._cands(case["files"])
            keys = {}
            for c in cs:
                if c is not None:
                    keys.setdefault(repr(c.sortkey[:4]), []).append(c.filename)        # version, extra, type, tag score
            tied = [v for v in keys.values() if len(v) > 1]
            # which positions differ?
            diff = {f for f, g in zip(r["order"], r["order_permuted"]) if f != g}
            in_tie = all(any(f in t for t in tied) for f in diff)
            fails.append(("C20/rank-order-dependent/" + ("tag-score-tie" if in_tie else "other"), {"a": r["order"], "b": r["order_permuted"], "ties": tied}))
        return fails

    def shrink(self, case):
        n = len(case["files"])
        for i in range(n):
            files = case["files"][:i] + case["files"][i + 1:]
            perm = [p - (1 if p > i else 0) for p in case["perm"] if p != i]
            yield {"files": files, "perm": perm}


class OverrideStream(Stream):
    """a site policy module `_manylinux` (PEP 600 / PEP 513 / 571) is installed: `manylinux_compatible(major, minor, arch)`
    answering True / False / None ("no opinion"), or the legacy attributes; packaging.tags under the same module is the
    reference for "the running interpreter supports this tag".  Oracle only: the Lean model has no such branch."""
    name = "site-override"
    quick_n = 300
    thorough_n = 6000
    batch = 100

    LEVELS = [(2, 5), (2, 12), (2, 17), (2, 28), (2, 34), (2, 36)]

    def generate(self, rng):
        kind = rng.choice(["function", "function", "legacy", "empty"])
        table = {}
        if kind == "function":
            for lv in rng.sample(self.LEVELS, rng.randint(0, 4)):
                table["%d.%d" % lv] = rng.choice([True, False, None])
        elif kind == "legacy":
            for a in rng.sample(["manylinux1_compatible", "manylinux2010_compatible"], rng.randint(0, 2)):
                table[a] = rng.choice([True, False])
        lv = rng.choice(self.LEVELS)
        arch = rng.choice(["x86_64", "x86_64", "x86_64", "aarch64"])
        tag = rng.choice(["manylinux_%d_%d_%s" % (lv[0], lv[1], arch)] +
                         ({(2, 5): ["manylinux1_" + arch], (2, 12): ["manylinux2010_" + arch], (2, 17): ["manylinux2014_" + arch]}.get(lv, [])))
        return {"kind": kind, "table": table, "default": rng.choice([None, None, True, False]) if kind == "function" else None, "tag": tag}

    def impl(self, case):
        import sys
        import types
        import packaging.tags
        from req_compile.repos import repository as R
        mod = types.ModuleType("_manylinux")
        if case["kind"] == "function":
            table, default = case["table"], case["default"]

            def manylinux_compatible(major, minor, arch):
                return table.get("%d.%d" % (major, minor), default)
            mod.manylinux_compatible = manylinux_compatible
        elif case["kind"] == "legacy":
            for k, v in case["table"].items():
                setattr(mod, k, v)
        saved = sys.modules.get("_manylinux")
        sys.modules["_manylinux"] = mod

        def forget():
            # packaging remembers the policy module it found first
            import packaging._manylinux as PM
            for fn in ("_get_manylinux_module", "_is_compatible"):
                f = getattr(PM, fn, None)
                if hasattr(f, "cache_clear"):
                    f.cache_clear()
        forget()
        try:
            fn = "foo-1.0-py3-none-%s.whl" % case["tag"]
            c = R.filename_to_candidate("http://x/" + fn, fn)
            code = R.check_usability(None, c, has_equality=True, allow_prereleases=True) is None
            supported = packaging.tags.Tag("py3", "none", case["tag"]) in set(packaging.tags.sys_tags())
        finally:
            if saved is None:
                sys.modules.pop("_manylinux", None)
            else:
                sys.modules["_manylinux"] = saved
            forget()
        return {"eligible": code, "supported": supported}

    def flags(self, case, r):
        return ["policy:" + case["kind"], "supported" if r["supported"] else "unsupported", "eligible" if r["eligible"] else "rejected"]

    def oracle(self, case, r):
        if r["supported"] and not r["eligible"]:
            return [("C20/supported-rejected/site-override", {"tag": case["tag"], "policy": case["kind"], "table": case["table"], "default": case["default"]})]
        return []


def streams():
    return [TagStream(), SynthStream(), RankStream(), OverrideStream()]
