"""Generated source projects for C12 (metadata recovered exactly) and C13 (process untouched).

A *spec* is a JSON value describing what the project declares (name, version, requirements, extras), in which
idiom each value reaches setup() (literal, read from a file, imported from a helper module or from the package,
computed, from setup.cfg, from a pyproject [project] table), how the script finds its own directory, and — for
C13 — what else the script does (re-patching, changing directory, spawning, writing, exiting).
`materialise(spec, root, packaging)` writes the project as a directory, a .tar.gz or a .zip.
"""
from __future__ import annotations

import io
import os
import tarfile
import zipfile

NAMES = ["sample", "Foo.Bar", "my-pkg", "lib_core", "Zope.Thing", "a"]
VERSIONS = ["1.0", "2.3.4", "0.1a1", "1.0.post2", "2021.5", "1!2.0", "3.0.dev1", "1.0+loc"]
REQS = ["alpha", "beta>=1.0", "gamma[socks]<3,>=2", "delta==1.*", "epsilon; python_version >= '3'", "zeta!=1.5",
        "eta>=1; sys_platform == 'win32'", "Theta.Lib~=2.1"]
EXTRAS = ["test", "docs", "x", "Security"]

VERSION_FROM = ["literal", "file", "module", "package", "exec", "regex", "computed", "about-dict", "nested-relative", "hidden-file-guarded"]
REQS_FROM = ["literal", "file", "string", "tuple", "helper", "nested-relative", "hidden-dir-guarded"]
HERE = ["abspath-dirname", "dirname", "relative", "chdir", "realpath"]
SETUP_IMPORT = ["from-setuptools", "setuptools-mod", "distutils"]
STYLES = ["kwargs", "kwargs", "kwargs", "cfg", "mixed", "pyproject"]

# what a script may do besides declaring metadata (C13)
BEHAVIOURS = {
    "spawn": "import subprocess\ntry:\n    _v = subprocess.check_output(['git', 'describe'])\nexcept Exception:\n    _v = None\n",
    "popen": "import subprocess\ntry:\n    subprocess.Popen(['true'])\nexcept OSError:\n    pass\n",
    "repatch-getcwd": "os.getcwd = lambda: '/nowhere'\n",
    "repatch-stdout": "sys.stdout = open(os.devnull, 'w')\n",
    "repatch-stderr": "sys.stderr = sys.stdout\n",
    "repatch-argv": "sys.argv = ['x', 'y']\n",
    "append-argv": "sys.argv.append('--foo')\n",
    "repatch-popen": "import subprocess\nsubprocess.Popen = None\n",
    "repatch-exists": "os.path.exists = lambda p: False\n",
    "repatch-open": "import builtins\nbuiltins.open = builtins.open\n",
    "repatch-ioopen": "import io\nio.open = io.open\n",
    "stdin-none": "sys.stdin = None\n",
    "chdir-sub": "os.chdir('sub')\nos.chdir('..')\n",
    "chdir-here": "os.chdir(os.path.dirname(os.path.abspath(__file__)) or '.')\n",
    "print": "print('building', file=sys.stderr)\nprint('hello')\n",
    "write-rel": "try:\n    open('generated.txt', 'w').write('x')\nexcept Exception:\n    pass\n",
    "write-here": "try:\n    open(os.path.join(os.path.dirname(os.path.abspath(__file__)), 'VERSION'), 'w').write('9.9')\nexcept Exception:\n    pass\n",
    "mkdir-rel": "try:\n    os.mkdir('build_dir')\nexcept Exception:\n    pass\n",
    "remove-rel": "try:\n    os.remove('README.txt')\nexcept Exception:\n    pass\n",
    "rename": "try:\n    os.rename('README.txt', 'README.md')\nexcept Exception:\n    pass\n",
    "listdir": "_l = os.listdir('.')\n",
    "exists": "_e = os.path.exists('README.txt') and os.path.isfile('setup.py')\n",
    "warn": "import warnings\nwarnings.warn('old style')\n",
    "import-helper": "import helper_mod\n",
    "syspath-src": "sys.path.insert(0, os.path.join(os.path.dirname(os.path.abspath(__file__)), 'src'))\nimport inner_mod\n",
    "urlretrieve": "import urllib.request\ntry:\n    urllib.request.urlretrieve('http://example.invalid/x', 'x')\nexcept IOError:\n    pass\n",
    "symlink": "os.symlink('a', 'b')\n",
    "syspath-pop0": "sys.path.pop(0)\n",
    "syspath-reset": "sys.path[:] = [p for p in sys.path if not p.startswith(os.path.dirname(os.path.abspath(__file__)))]\n",
    "spawn-uncaught": "import subprocess\nsubprocess.check_output(['true'])\n",
    "spawn-then-write-link": "import subprocess\nsubprocess.check_output(['true'])\ntry:\n    open(os.path.join('pkglink', 'stamp.txt'), 'w').write('x')\nexcept Exception:\n    pass\n",
    "load-rel": "import importlib.util\n_sp = importlib.util.spec_from_file_location('rv_rel_helper', 'helper_mod.py')\n_hm = importlib.util.module_from_spec(_sp)\n_sp.loader.exec_module(_hm)\n",
    "chdir-up": "os.chdir('../../')\n",
    "load-rel-then-leave": "import importlib.util\n_sp = importlib.util.spec_from_file_location('rv_rel_helper', 'helper_mod.py')\n_hm = importlib.util.module_from_spec(_sp)\n_sp.loader.exec_module(_hm)\nos.chdir('../../')\n",
    # what `import six` (and vendoring / lazy-import shims) do: an import finder of the script's own is installed
    "meta-path-append": "class _RvScriptFinder(object):\n    def find_spec(self, *a, **k):\n        return None\n    def find_module(self, *a, **k):\n        return None\nsys.meta_path.append(_RvScriptFinder())\n",
    "thread": "import threading\n_t = threading.Thread(target=lambda: None)\n_t.start()\n_t.join()\n",
}
EXITS = ["sys.exit(0)", "sys.exit(3)", "os._exit(1)", "raise RuntimeError('boom')", "raise SystemExit(2)",
         "class _Stop(BaseException):\n    pass\nraise _Stop()", "raise ImportError('no such thing')", "1 / 0"]


def gen_spec(rng, behaviours=False, allow_pyproject=True):
    name = rng.choice(NAMES)
    spec = {
        "name": name,
        "version": rng.choice(VERSIONS),
        "requires": rng.sample(REQS, rng.randint(0, 4)),
        "extras": {e: rng.sample(REQS[:4] + ["omega>=2"], rng.randint(1, 2)) for e in rng.sample(EXTRAS, rng.choice([0, 0, 1, 2]))},
        "style": rng.choice(STYLES if allow_pyproject else STYLES[:-1]),
        "version_from": rng.choice(VERSION_FROM),
        "reqs_from": rng.choice(REQS_FROM),
        "here": rng.choice(HERE),
        "setup_import": rng.choice(SETUP_IMPORT),
        "tar_dir_entries": rng.random() < 0.8,
        "prelude": [], "postlude": [], "exit": None, "probe": True,
    }
    if rng.random() < 0.2:
        spec["marker_extra"] = {":python_version < '3'": ["futures"]}
    if rng.random() < 0.2:
        spec["nested_setup"] = True
    if spec["extras"] and rng.random() < 0.3:
        # setup(extras_require={"x": "one-requirement"}) / {"x": "first\nsecond"}: a string where a list is usual
        spec["extras_as_text"] = True
    if rng.random() < 0.12:
        spec["latin1"] = True          # a legal setup.py that is not UTF-8 (coding line + accented author name)
    if behaviours:
        spec["prelude"] = rng.sample(sorted(BEHAVIOURS), rng.randint(0, 4))
        spec["postlude"] = rng.sample(sorted(BEHAVIOURS), rng.choice([0, 0, 1]))
        if rng.random() < 0.35:
            spec["exit"] = {"stmt": rng.choice(EXITS), "when": rng.choice(["before-setup", "after-setup", "first"])}
    return spec


def pkg_dir(spec):
    return spec["name"].replace("-", "_").replace(".", "_").lower()


def _setup_py(spec):
    p = pkg_dir(spec)
    L = ["import os, sys, re", "import builtins as _b", "_probe = getattr(_b, '__rv_probe__', lambda *a: None)"]
    ex = spec.get("exit")
    if ex and ex["when"] == "first":
        L.append(ex["stmt"])
    here = spec["here"]
    if here == "abspath-dirname":
        L.append("here = os.path.abspath(os.path.dirname(__file__))")
    elif here == "dirname":
        L.append("here = os.path.dirname(__file__) or '.'")
    elif here == "realpath":
        L.append("here = os.path.dirname(os.path.abspath(__file__))")
    elif here == "chdir":
        L.append("os.chdir(os.path.dirname(os.path.abspath(__file__)) or '.')")
        L.append("here = '.'")
    else:
        L.append("here = '.'")
    for b in spec.get("prelude", []):
        L.append(BEHAVIOURS[b].rstrip("\n"))
    imp = spec["setup_import"]
    if imp == "from-setuptools":
        L.append("from setuptools import setup, find_packages")
        call = "setup"
    elif imp == "setuptools-mod":
        L.append("import setuptools")
        call = "setuptools.setup"
    else:
        L.append("from distutils.core import setup")
        call = "setup"
    style = spec["style"]
    kw = []
    if style in ("kwargs", "mixed"):
        vf = spec["version_from"]
        if vf == "literal":
            L.append("version = %r" % spec["version"])
        elif vf == "file":
            L.append("with open(os.path.join(here, 'VERSION')) as f:\n    version = f.read().strip()")
        elif vf == "hidden-file-guarded":
            # a dot-file at the project root, read only if it is there (with a default that is not the declaration)
            L.append("version = '0.0.0'\n_vf = os.path.join(here, '.version')\nif os.path.exists(_vf):\n    with open(_vf) as f:\n        version = f.read().strip()")
        elif vf == "module":
            L.append("from helper_mod import VERSION as version")
        elif vf == "package":
            L.append("import %s\nversion = %s.__version__" % (p, p))
        elif vf == "exec":
            L.append("ns = {}\nwith open(os.path.join(here, %r, '_version.py')) as f:\n    exec(f.read(), ns)\nversion = ns['__version__']" % p)
        elif vf == "regex":
            L.append("with open(os.path.join(here, %r, '__init__.py')) as f:\n    version = re.search(r\"__version__ = '([^']+)'\", f.read()).group(1)" % p)
        elif vf == "nested-relative":
            # a helper module two packages deep that itself uses a relative import (a same-named module one level up
            # says something else)
            L.append("from %s.plugins.info import VERSION as version" % p)
        elif vf == "computed":
            L.append("version = ''.join(%r)" % list(spec["version"]))
        else:
            L.append("about = {}\nwith open(os.path.join(here, %r, '__about__.py')) as f:\n    exec(f.read(), about)\nversion = about['__version__']" % p)
        kw.append("name=%r" % spec["name"])
        kw.append("version=version")
        if style == "kwargs":
            rf = spec["reqs_from"]
            if rf == "literal":
                L.append("requires = %r" % spec["requires"])
            elif rf == "file":
                L.append("with open(os.path.join(here, 'requirements.txt')) as f:\n    requires = [l.strip() for l in f if l.strip() and not l.startswith('#')]")
            elif rf == "nested-relative":
                L.append("from %s.plugins.info import REQUIRES as requires" % p)
            elif rf == "hidden-dir-guarded":
                L.append("requires = []\n_rf = os.path.join(here, '.requirements', 'base.txt')\nif os.path.isfile(_rf):\n    with open(_rf) as f:\n        requires = [l.strip() for l in f if l.strip() and not l.startswith('#')]")
            elif rf == "string":
                L.append("requires = %r" % "\n".join(spec["requires"]))
            elif rf == "tuple":
                L.append("requires = tuple(%r)" % spec["requires"])
            else:
                L.append("from helper_mod import REQUIRES as requires")
            if spec.get("cond_dir"):
                L.append("if os.path.exists(os.path.join(here, %r)):\n    requires = list(requires.split('\\n') if isinstance(requires, str) else requires) + ['dirdep>=1']" % spec["cond_dir"])
            if spec.get("cond_missing"):
                L.append("if not os.path.exists(os.path.join(here, %r)):\n    requires = list(requires.split('\\n') if isinstance(requires, str) else requires) + ['nodir>=1']" % spec["cond_missing"])
            kw.append("install_requires=requires")
            extras = dict(spec["extras"])
            extras.update(spec.get("marker_extra", {}))
            if spec.get("extras_as_text"):
                extras = {e: "\n".join(rs) for e, rs in extras.items()}
            if extras:
                kw.append("extras_require=%r" % extras)
        kw.append("packages=[%r]" % p)
        kw.append("long_description=open(os.path.join(here, 'README.txt')).read()")
    if spec.get("probe"):
        L.append("_probe()")
    if ex and ex["when"] == "before-setup":
        L.append(ex["stmt"])
    L.append("%s(%s)" % (call, ", ".join(kw)))
    for b in spec.get("postlude", []):
        L.append(BEHAVIOURS[b].rstrip("\n"))
    if ex and ex["when"] == "after-setup":
        L.append(ex["stmt"])
    return "\n".join(L) + "\n"


def _setup_cfg(spec, full):
    L = []
    if full:
        L += ["[metadata]", "name = %s" % spec["name"], "version = %s" % spec["version"], ""]
    L += ["[options]"]
    if spec["requires"]:
        L.append("install_requires =")
        L += ["    " + r for r in spec["requires"]]
    extras = dict(spec["extras"])
    if extras:
        L += ["", "[options.extras_require]"]
        for e, rs in extras.items():
            L.append("%s =" % e)
            L += ["    " + r for r in rs]
    return "\n".join(L) + "\n"


def _pyproject(spec):
    def arr(xs):
        return "[" + ", ".join('"%s"' % x.replace('"', '\\"') for x in xs) + "]"
    backend = "rv_inplace_backend" if spec.get("backend") == "rv-inplace" else "setuptools.build_meta"
    L = ["[build-system]", 'requires = ["setuptools"]', 'build-backend = "%s"' % backend, "", "[project]",
         'name = "%s"' % spec["name"], 'version = "%s"' % spec["version"],
         "dependencies = %s" % arr(spec["requires"] + (["this is ;;; not a requirement"] if spec.get("broken_backend") else []))]
    if spec["extras"]:
        L += ["", "[project.optional-dependencies]"]
        for e, rs in spec["extras"].items():
            L.append("%s = %s" % (e, arr(rs)))
    L += ["", "[tool.setuptools]", "packages = [\"%s\"]" % pkg_dir(spec)]
    return "\n".join(L) + "\n"


def files_of(spec):
    """relative path -> text"""
    p = pkg_dir(spec)
    f = {
        "README.txt": "A sample project\n",
        "VERSION": spec["version"] + "\n",
        ".version": spec["version"] + "\n",
        ".requirements/base.txt": "# requirements\n" + "\n".join(spec["requires"]) + "\n",
        "requirements.txt": "# requirements\n" + "\n".join(spec["requires"]) + "\n",
        "helper_mod.py": "VERSION = %r\nREQUIRES = %r\n" % (spec["version"], spec["requires"]),
        "%s/__init__.py" % p: "__version__ = '%s'\n" % spec["version"],
        "%s/_version.py" % p: "__version__ = %r\n" % spec["version"],
        "%s/__about__.py" % p: "__title__ = %r\n__version__ = %r\n" % (spec["name"], spec["version"]),
        "%s/plugins/__init__.py" % p: "",
        "%s/plugins/info.py" % p: "from .deps import VERSION, REQUIRES\n",
        "%s/plugins/deps.py" % p: "VERSION = %r\nREQUIRES = %r\n" % (spec["version"], spec["requires"]),
        "%s/deps.py" % p: "VERSION = '0.0.1'\nREQUIRES = ['decoy-dependency<1']\n",
        "sub/keep.txt": "x\n",
        "src/inner_mod.py": "X = 1\n",
    }
    if spec.get("nested_setup"):
        # a second project below this one (examples/, bindings/python/ ...), listed before the project's own files
        f["examples/demo/setup.py"] = ("from setuptools import setup\nsetup(name='nested-example', version='0.0.9', "
                                      "install_requires=['only-the-example-needs-this<1'])\n")
        f["examples/demo/setup.cfg"] = "[metadata]\nname = nested-example\nversion = 0.0.9\n"
    style = spec["style"]
    if style == "pyproject":
        f["pyproject.toml"] = _pyproject(spec)
    else:
        f["setup.py"] = _setup_py(spec)
        if style in ("cfg", "mixed"):
            f["setup.cfg"] = _setup_cfg(spec, full=(style == "cfg"))
    return f


def top_name(spec):
    return "%s-%s" % (spec["name"], spec["version"])


def _data(spec, rel, text):
    """file content as bytes: setup.py may be written in another source encoding (declared by its coding line)"""
    if rel == "setup.py" and spec.get("latin1"):
        return ("# -*- coding: latin-1 -*-\nAUTHOR = 'Jos\xe9 M\xfcller'\n" + text).encode("latin-1")
    return text.encode("utf-8")


def materialise(spec, root, packaging):
    """-> path to hand to extract_metadata"""
    files = files_of(spec)
    top = top_name(spec)
    if packaging == "dir":
        base = os.path.join(root, top)
        for rel, text in files.items():
            full = os.path.join(base, rel)
            os.makedirs(os.path.dirname(full), exist_ok=True)
            with io.open(full, "wb") as fh:
                fh.write(_data(spec, rel, text))
        if spec.get("abs_symlink"):
            # a link with an absolute target into the project itself (as `ln -s $PWD/sub pkglink` leaves it)
            os.symlink(os.path.join(base, "sub"), os.path.join(base, "pkglink"))
        return base
    if packaging == "tar.gz":
        path = os.path.join(root, top + ".tar.gz")
        with tarfile.open(path, "w:gz") as tf:
            dirs = set()
            for rel in sorted(files):
                parts = (top + "/" + rel).split("/")[:-1]
                for i in range(1, len(parts) + 1):
                    d = "/".join(parts[:i])
                    if d not in dirs and spec.get("tar_dir_entries", True):
                        ti = tarfile.TarInfo(d)
                        ti.type = tarfile.DIRTYPE
                        ti.mode = 0o755
                        tf.addfile(ti)
                    dirs.add(d)
                data = _data(spec, rel, files[rel])
                ti = tarfile.TarInfo(top + "/" + rel)
                ti.size = len(data)
                ti.mode = 0o644
                tf.addfile(ti, io.BytesIO(data))
        return path
    if packaging == "zip":
        path = os.path.join(root, top + ".zip")
        with zipfile.ZipFile(path, "w") as zf:
            for rel in sorted(files):
                zf.writestr(top + "/" + rel, _data(spec, rel, files[rel]))
        return path
    raise ValueError(packaging)


def declared(spec):
    """what the project declares, in comparable form: (name, version, sorted requirement strings with markers)"""
    from rv import graphlib as GL
    reqs = []
    for r in spec["requires"]:
        reqs.append(str(GL.P(r)))
    if spec.get("cond_dir") and spec["style"] == "kwargs":
        reqs.append("dirdep>=1")      # the directory is part of every generated project
    if spec.get("cond_missing") and spec["style"] == "kwargs":
        reqs.append("nodir>=1")       # the path does not exist in any generated project
    extras = dict(spec["extras"])
    if spec["style"] == "kwargs":
        extras.update(spec.get("marker_extra", {}))
    for e, rs in extras.items():
        for r in rs:
            marker = e[1:] if e.startswith(":") else 'extra == "%s"' % e
            reqs.append(str(GL.P(r + (" and " if ";" in r else "; ") + marker)))
    return {"name": spec["name"], "version": str(GL.V(spec["version"])), "reqs": sorted(reqs)}
