"""Shared generators and canonicalisers for requirement-level streams."""
from __future__ import annotations

import itertools

NAME_FAMILIES = [
    ["foo", "Foo", "FOO"],
    ["foo-bar", "Foo_Bar", "foo.bar", "FOO-bar", "foo_bar"],
    ["zope.interface", "zope-interface", "Zope_Interface"],
    ["a", "A"],
    ["b2", "B2"],
    ["x.y.z", "x-y-z", "X_y.Z", "x_y_z"],
    ["lib3-core", "Lib3.Core", "lib3_core"],
]

EXTRAS_POOL = ["x", "y", "test", "Docs", "X", "all", "dev_tools"]

OPS = ["==", "!=", ">=", "<=", ">", "<", "~=", "==="]
VERSIONS = ["0.9", "1", "1.0", "1.0.0", "1.1", "1.4.0", "1.4.1", "1.5", "2", "2.0", "2.0.1", "2.1.3", "3.0",
            "1.0a1", "2.0b2", "2.0rc1", "1.0.post1", "2.0.dev1", "1!0.5", "1!1.0", "1.0+local", "10.0", "0.0.1"]
WILD = ["1.*", "2.*", "1.4.*", "2.0.*", "0.*", "1!1.*"]

GRID = ["0", "0.0.1", "0.5", "0.9", "0.9.9", "1", "1.0a1", "1.0b3", "1.0rc1", "1.0", "1.0.0", "1.0.post1", "1.0.1",
        "1.0+local", "1.0+abc.1", "1.1", "1.1.dev1", "1.3.999", "1.4", "1.4.0", "1.4.0.5", "1.4.1", "1.4.1a1", "1.4.9", "1.5",
        "1.5.0.post2", "1.9", "2.0.dev1", "2.0a1", "2.0b2", "2.0rc1", "2", "2.0", "2.0.0", "2.0.1", "2.0.post1",
        "2.1", "2.1.3", "2.1.4", "2.9", "3", "3.0", "3.0.1", "3.1", "9", "10.0", "10.0.1", "11", "1!0.1", "1!0.5", "1!0.6",
        "1!1.0", "1!1.0.1", "1!2", "2!0"]

MARKERS = [None, None, None, 'python_version >= "3"', 'python_version < "3"', 'extra == "x"', 'extra == "y"',
           'extra == "x" or extra == "y"', 'python_version >= "3" and extra == "test"',
           'sys_platform == "linux"', 'sys_platform == "win32"', 'python_version >= "3" or sys_platform == "win32"',
           'os_name == "posix" and python_version >= "3"']


def gen_spec(rng, maxn=3):
    n = rng.choice([0, 1, 1, 1, 2, 2, 3][: maxn + 4])
    parts = []
    for _ in range(n):
        op = rng.choice(OPS)
        if op in ("==", "!=") and rng.random() < 0.3:
            parts.append(op + rng.choice(WILD))
        elif op == "~=":
            parts.append(op + rng.choice([v for v in VERSIONS if "." in v and "+" not in v]))
        elif op == "===":
            parts.append(op + rng.choice(VERSIONS))
        elif op in (">", "<", ">=", "<=", "~="):
            parts.append(op + rng.choice([v for v in VERSIONS if "+" not in v]))
        else:
            parts.append(op + rng.choice(VERSIONS))
    return ",".join(parts)


def gen_req_text(rng, family=None, markers=True):
    fam = family or rng.choice(NAME_FAMILIES)
    name = rng.choice(fam)
    extras = ""
    if rng.random() < 0.4:
        k = rng.choice([1, 1, 2, 3])
        extras = "[" + ",".join(rng.sample(EXTRAS_POOL, k)) + "]"
    spec = gen_spec(rng)
    marker = rng.choice(MARKERS) if markers else None
    text = name + extras + spec
    if marker:
        text += " ; " + marker
    return text


class ClauseTable:
    """Clause ids by equality of packaging Specifier objects (what `set(req.specifier)` sees)."""

    def __init__(self):
        self.ids = {}
        self.by_id = []

    def id_of(self, spec):
        if spec not in self.ids:
            self.ids[spec] = len(self.by_id)
            self.by_id.append(spec)
        return self.ids[spec]

    def ids_of(self, req):
        return sorted(self.id_of(s) for s in sorted(req.specifier, key=str))


# ---------------------------------------------------------------------------------------------------------
# Facts about a requirement computed by the harness itself (from the wording of the properties and packaging's
# objects), NOT by asking the code under test: a seeded change to req_compile.utils.is_pinned_requirement went
# unseen as long as model and oracle were fed the code's own answer.
# ---------------------------------------------------------------------------------------------------------

def pins_exactly(req):
    """the requirement pins a version exactly: an == / === clause that is not a `.*` wildcard"""
    return any(sp.operator in ("==", "===") and not sp.version.endswith(".*") for sp in req.specifier)


def names_prerelease(req):
    """some clause of the requirement names a pre-release version"""
    from packaging.version import Version, InvalidVersion
    for sp in req.specifier:
        try:
            if Version(sp.version[:-2] if sp.version.endswith(".*") else sp.version).is_prerelease:
                return True
        except InvalidVersion:
            pass
    return False


def applies_under(req, extra):
    """does a requirement of a distribution apply when the distribution is taken plain (extra None) / with `extra`:
    unmarked requirements belong to the plain view only; a marked one applies where its marker holds"""
    if req.marker is None:
        return not extra
    return bool(req.marker.evaluate({"extra": extra or ""}))


def marker_activity(req, extras):
    """(actNone, actFor) as req_uses_extra would evaluate them."""
    if not req.marker:
        return True, []
    act_none = bool(req.marker.evaluate({"extra": ""}))
    act_for = [e for e in extras if req.marker.evaluate({"extra": e})]
    return act_none, act_for


def req_json(req, table, extras_universe=()):
    act_none, act_for = marker_activity(req, extras_universe)
    return {"name": req.name, "extras": sorted(set(req.extras)), "clauses": table.ids_of(req),
            "marker": str(req.marker) if req.marker else None, "actNone": act_none, "actFor": sorted(act_for)}


def req_canon(req, table):
    return {"name": req.name, "extras": sorted(set(req.extras)), "clauses": table.ids_of(req),
            "marker": str(req.marker) if req.marker else None}


def model_req_canon(j):
    return {"name": j["name"], "extras": sorted(set(j["extras"])), "clauses": sorted(set(j["clauses"])),
            "marker": j.get("marker")}
