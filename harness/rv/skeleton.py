"""Acquire/release skeletons of the analyser's clean-up code, read from the working tree (Python AST) and
emitted as terms of `RV.PT.Stmt` (lean/ReqVerif/Model/Patch.lean).

Reading rules (the trusted part of this translator, DESIGN §4.4):
* acquisitions / releases are recognised syntactically (table below); everything else that contains a call is a
  `call` that may raise, unless the callee is in NONRAISING (pure helpers, constructors, logging);
* `with patch(...)` (directly or through a name bound to `patch(...)`) is `withRes sites body`;
* the loop that sweeps `sys.modules` is `relAll` of the fake and of the project modules;
* `try: import … except ImportError:` is "either the imports or the handler" (imports raise nothing else);
* `sys.path.remove(X)` outside such a guard may raise (the entry can be gone); `sys.meta_path.remove(hook)` is
  taken not to raise (scripts do not remove import hooks they did not install);
* in a function that saves the working directory, `os.chdir(X)` acquires it (after the call, which may raise) and
  `os.chdir(old_…)` puts it back (elsewhere `os.chdir` is an ordinary call: in `_parse_setup_py` it is the virtual one);
  `with LOCK:` holds the lock for its body; `with open(…)` holds the file (the `open` itself may raise);
* a release guarded by a test that says "if it is held" (`X in sys.path`, `tok is not None`) is read as the
  bare release (releasing what is not held is a no-op in the model);
* `try/except` handlers may or may not match, except around a single call of a function listed in RAISES_ONLY with
  exactly that exception type (`build_repo` raises ValueError only: repositories fail later, while solving); `if` is a free choice; a `for` whose body holds no acquisition or
  release is zero-or-one run of its body; an unknown shape makes the skeleton `UNTRANSLATABLE` (resource 0).
"""
from __future__ import annotations

import ast
import os

NONRAISING = {
    "functools.partial", "os.path.join", "os.path.dirname", "os.path.abspath", "os.path.basename", "StringIO",
    "ArchiveMetaHook", "patch", "FakeModule", "FakeNumpyModule", "list", "hasattr", "isinstance", "getattr", "setattr",
    "LOG.debug", "LOG.info", "LOG.warning", "LOG.error", "begin_patch", "end_patch", "sys.modules.keys",
    "utils.normalize_project_name", "utils.parse_version", "os.path.isabs", "os.path.relpath", "re.split", "os.getcwd",
    "'{}'.format", "format", "print", "logging.getLogger",
}


# callees whose only exception is the one their call site handles (declared, part of the trusted reading rules)
RAISES_ONLY = {"build_repo": "ValueError"}


class Untranslatable(Exception):
    pass


class Skel:
    def __init__(self):
        self.res = ["UNTRANSLATABLE"]   # id 0 reserved
        self.tokens = {}                # token variable -> resource id
        self.patch_vars = {}            # name bound to patch(...) -> list of sites
        self.sites = {}                 # label -> list of "module.member"
        self.consts = {}                # flag name -> value: `if flag:` / `if not flag:` are decided
        self.once = set()               # flags whose first test only is decided

    def rid(self, name):
        if name not in self.res:
            self.res.append(name)
        return self.res.index(name)


def _callee(call: ast.Call) -> str:
    try:
        return ast.unparse(call.func)
    except Exception:
        return "?"


def _calls(node):
    return [n for n in ast.walk(node) if isinstance(n, ast.Call)]


def _seq(items):
    items = [i for i in items if i != ".skip"]
    if not items:
        return ".skip"
    out = items[-1]
    for i in reversed(items[:-1]):
        out = "(.seq %s %s)" % (i, out)
    return out


def _patch_sites(call: ast.Call):
    args = call.args
    if len(args) % 3:
        raise Untranslatable("patch() with %d arguments" % len(args))
    sites = []
    for i in range(0, len(args), 3):
        mod = ast.unparse(args[i]).strip("'\"")
        member = ast.literal_eval(args[i + 1])
        sites.append("%s.%s" % (mod, member))
    return sites


def _may_raise(sk, node) -> bool:
    for c in _calls(node):
        name = _callee(c)
        if name in NONRAISING or name.endswith(".format") or name.endswith(".replace") or name.endswith(".startswith"):
            continue
        return True
    return False


def _guard_is_held_test(test: ast.AST) -> bool:
    txt = ast.unparse(test)
    return txt.endswith(" in sys.path") or txt.endswith(" is not None")


def _stmt(sk: Skel, s: ast.stmt, probe=False) -> str:
    if isinstance(s, ast.Assert):
        return "(.choice .raise .skip)"
    if isinstance(s, (ast.Continue, ast.Break)):
        return ".skip"       # loops are read as zero-or-one run of their body
    if isinstance(s, (ast.FunctionDef, ast.ClassDef, ast.Pass, ast.Global, ast.Nonlocal, ast.Delete)):
        if isinstance(s, ast.Delete) and "sys.modules" in ast.unparse(s):
            return _seq(["(.relAll %d)" % sk.rid("sys.modules:fake"), "(.relAll %d)" % sk.rid("sys.modules:project")])
        return ".skip"
    if isinstance(s, (ast.Import, ast.ImportFrom)):
        return ".call" if getattr(s, "_in_import_try", False) else ".skip"
    if isinstance(s, ast.Return):
        pre = ".call" if s.value is not None and _may_raise(sk, s.value) else ".skip"
        return _seq([pre, ".ret"])
    if isinstance(s, ast.Raise):
        return ".raise"
    if isinstance(s, ast.Expr):
        v = s.value
        if isinstance(v, ast.Constant):
            return ".skip"
        if isinstance(v, ast.Call):
            name = _callee(v)
            if name == "end_patch":
                tok = ast.unparse(v.args[0])
                if tok not in sk.tokens:
                    raise Untranslatable("end_patch of unknown token %s" % tok)
                return "(.rel %d)" % sk.tokens[tok]
            if name == "sys.meta_path.append":
                return "(.acq %d)" % sk.rid("sys.meta_path:" + ast.unparse(v.args[0]))
            if name == "sys.meta_path.remove":
                return "(.rel %d)" % sk.rid("sys.meta_path:" + ast.unparse(v.args[0]))
            if name == "sys.path.insert":
                return "(.acq %d)" % sk.rid("sys.path:" + ast.unparse(v.args[1]))
            if name == "sys.path.append":
                return "(.acq %d)" % sk.rid("sys.path:" + ast.unparse(v.args[0]))
            if name == "sys.path.remove":
                # list.remove raises ValueError when the entry is gone (scripts do edit sys.path): the bare call may
                # raise; under a guard `if X in sys.path:` it cannot (the If case strips the `.call`)
                return "(.seq .call (.rel %d))" % sk.rid("sys.path:" + ast.unparse(v.args[0]))
            if name == "logging.captureWarnings":
                on = ast.unparse(v.args[0]) == "True"
                return "(.%s %d)" % ("acq" if on else "rel", sk.rid("warnings.showwarning (logging.captureWarnings)"))
            if name in ("exec", "setup"):
                # running project code: modules of the project may get loaded
                return _seq(["(.acq %d)" % sk.rid("sys.modules:project"), ".call"])
            if name == "shutil.rmtree":
                return "(.rel %d)" % sk.rid("tmpdir:" + ast.unparse(v.args[0]))
            if name == "sys.exit":
                return ".raise"
            if name == "os.chdir" and getattr(sk, "tracks_cwd", False):
                # the process working directory: changed = held, put back to a saved `old_*` value = released
                arg = v.args[0]
                if isinstance(arg, ast.Name) and arg.id.startswith("old_"):
                    return "(.rel %d)" % sk.rid("cwd")
                return "(.seq .call (.acq %d))" % sk.rid("cwd")
        return ".call" if _may_raise(sk, v) else ".skip"
    if isinstance(s, (ast.Assign, ast.AnnAssign)):
        targets = s.targets if isinstance(s, ast.Assign) else [s.target]
        value = s.value
        tgt = ast.unparse(targets[0])
        if value is None:
            return ".skip"
        if isinstance(value, ast.Call):
            name = _callee(value)
            if name == "begin_patch":
                mod = ast.unparse(value.args[0]).strip("'\"")
                member = ast.literal_eval(value.args[1])
                r = sk.rid("patch:%s.%s" % (mod, member))
                sk.tokens[tgt] = r
                return "(.acq %d)" % r
            if name == "patch":
                if not probe:
                    sk.patch_vars[tgt] = _patch_sites(value)
                return ".skip"
            if name == "tempfile.mkdtemp":
                return "(.acq %d)" % sk.rid("tmpdir:" + tgt)
        if tgt.startswith("sys.modules["):
            if isinstance(value, ast.Call) and _callee(value) in ("FakeModule", "FakeNumpyModule"):
                return "(.acq %d)" % sk.rid("sys.modules:fake")
            return "(.acq %d)" % sk.rid("sys.modules:project")
        if isinstance(targets[0], ast.Attribute) and tgt.split(".")[0] not in ("self",):
            # assignment to a member of a module: a substitution or its undoing
            if isinstance(value, ast.Lambda):
                return "(.acq %d)" % sk.rid("attr:" + tgt)
            if isinstance(value, ast.Name) and value.id.startswith("old_"):
                return "(.rel %d)" % sk.rid("attr:" + tgt)
        if isinstance(value, ast.Constant) and value.value is None and isinstance(s, ast.AnnAssign) and tgt.endswith("_patch"):
            return ".skip"
        return ".call" if _may_raise(sk, value) else ".skip"
    if isinstance(s, ast.AugAssign):
        return ".call" if _may_raise(sk, s.value) else ".skip"
    if isinstance(s, ast.If):
        t = s.test
        neg = isinstance(t, ast.UnaryOp) and isinstance(t.op, ast.Not)
        nm = t.operand if neg else t
        if isinstance(nm, ast.Name) and nm.id in sk.consts:
            val = sk.consts[nm.id] != neg
            if nm.id in sk.once:
                sk.consts.pop(nm.id)       # the name is re-bound afterwards: only its first test is decided
            return _block(sk, s.body if val else s.orelse, probe)
        if _guard_is_held_test(s.test) and not s.orelse:
            body = _block(sk, s.body, probe)
            if ast.unparse(s.test).endswith(" in sys.path"):
                body = body.replace("(.seq .call (.rel", "(.seq .skip (.rel")
            if ".rel" in body and ".acq" not in body:
                return body
            if ".acq" in body and ".rel" not in body:
                # `if imp is not None: tok = begin_patch(...)`: held only in that case, released under the same guard
                return body
        pre = ".call" if _may_raise(sk, s.test) else ".skip"
        return _seq([pre, "(.choice %s %s)" % (_block(sk, s.body, probe), _block(sk, s.orelse, probe))])
    if isinstance(s, ast.For):
        src = ast.unparse(s)
        if "sys.modules" in ast.unparse(s.iter) and "del sys.modules" in src:
            return _seq(["(.relAll %d)" % sk.rid("sys.modules:fake"), "(.relAll %d)" % sk.rid("sys.modules:project")])
        body = _block(sk, s.body, probe)
        if ".acq" in body or ".rel" in body:
            raise Untranslatable("loop with acquisitions: %s" % src[:60])
        pre = ".call" if _may_raise(sk, s.iter) else ".skip"
        return _seq([pre, "(.choice .skip %s)" % body])
    if isinstance(s, ast.While):
        body = _block(sk, s.body, probe)
        if ".acq" in body or ".rel" in body:
            raise Untranslatable("loop with acquisitions")
        return "(.choice .skip %s)" % body
    if isinstance(s, ast.With):
        item = s.items[0].context_expr
        sites = None
        if isinstance(item, ast.Call) and _callee(item) == "patch":
            sites = _patch_sites(item)
        elif isinstance(item, ast.Name) and item.id in sk.patch_vars:
            sites = sk.patch_vars[item.id]
        elif isinstance(item, ast.Name) and probe:
            sites = []
        if sites is not None:
            ids = [sk.rid("patch:" + x) for x in sites]
            if not probe:
                sk.sites.setdefault("with@%d" % s.lineno, sites)
            return "(PT.withRes %s %s)" % ("[" + ", ".join(map(str, ids)) + "]", _block(sk, s.body, probe))
        if isinstance(item, ast.Call) and _callee(item) == "closing":
            r = sk.rid("open:" + ast.unparse(item.args[0]))
            return "(PT.withRes [%d] %s)" % (r, _block(sk, s.body, probe))
        if isinstance(item, ast.Call) and _callee(item) == "open":
            r = sk.rid("open:" + ast.unparse(item.args[0]))
            return "(.seq .call (PT.withRes [%d] %s))" % (r, _block(sk, s.body, probe))
        if isinstance(item, ast.Name) and item.id.isupper() and "LOCK" in item.id:
            r = sk.rid("lock:" + item.id)
            return "(PT.withRes [%d] %s)" % (r, _block(sk, s.body, probe))
        raise Untranslatable("with %s" % ast.unparse(item)[:40])
    if isinstance(s, ast.Try):
        import_try = any("ImportError" in ast.unparse(h.type) for h in s.handlers if h.type is not None)
        if import_try:
            for b in s.body:
                if isinstance(b, (ast.Import, ast.ImportFrom)):
                    b._in_import_try = True
        only_imports = import_try and all(
            isinstance(b, (ast.Import, ast.ImportFrom)) or (isinstance(b, ast.Assign) and not _may_raise(sk, b.value))
            for b in s.body) and len(s.handlers) == 1 and not s.finalbody and not s.orelse
        if only_imports:
            # imports fail with ImportError only, which this handler catches: either the body runs or the handler does
            for b in s.body:
                b._in_import_try = False
            return "(.choice %s %s)" % (_block(sk, s.body, probe), _block(sk, s.handlers[0].body, probe))
        if len(s.body) == 1 and len(s.handlers) == 1 and not s.finalbody and not s.orelse and s.handlers[0].type is not None:
            calls = [c for c in _calls(s.body[0]) if _callee(c) not in NONRAISING]
            if len(calls) == 1 and RAISES_ONLY.get(_callee(calls[0])) == ast.unparse(s.handlers[0].type):
                return "(.tryAll %s %s)" % (_block(sk, s.body, probe), _block(sk, s.handlers[0].body, probe))
        body = _block(sk, s.body, probe)
        if s.orelse:
            body = _seq([body, _block(sk, s.orelse, probe)])
        t = body
        for h in s.handlers:
            t = "(.tryCatch %s %s)" % (t, _block(sk, h.body, probe))
        if s.finalbody:
            t = "(.tryFin %s %s)" % (t, _block(sk, s.finalbody, probe))
        return t
    raise Untranslatable("statement %s" % type(s).__name__)


def _block(sk, stmts, probe=False) -> str:
    return _seq([_stmt(sk, s, probe) for s in stmts])


def function_skeleton(path: str, fname: str, consts=None, once=(), preheld=()):
    """-> (lean term, resource names, patch site lists, error or None); `consts` decides flag tests, `preheld` are
    resources held on entry (acquired in front of the body)"""
    tree = ast.parse(open(path, encoding="utf-8").read())
    fn = None
    for n in ast.walk(tree):
        if isinstance(n, ast.FunctionDef) and n.name == fname:
            fn = n
            break
    sk = Skel()
    # the working directory is tracked in functions that save it (`old_cwd = os.getcwd()` ... `os.chdir(old_cwd)`); elsewhere
    # `os.chdir` is an ordinary call (in `_parse_setup_py` it is the *virtual* chdir substituted by the caller)
    sk.tracks_cwd = fn is not None and any(
        isinstance(c, ast.Call) and _callee(c) == "os.chdir" and c.args and isinstance(c.args[0], ast.Name) and c.args[0].id.startswith("old_")
        for c in ast.walk(fn))
    sk.consts = dict(consts or {})
    sk.once = set(once)
    if fn is None:
        return "(.acq 0)", sk.res, {}, "function %s not found" % fname
    try:
        pre = ["(.acq %d)" % sk.rid(r) for r in preheld]
        term = _seq(pre + [_block(sk, fn.body)])
    except Untranslatable as ex:
        return "(.acq 0)", sk.res, {}, str(ex)
    except Exception as ex:  # malformed source shapes
        return "(.acq 0)", sk.res, {}, "%s: %s" % (type(ex).__name__, ex)
    return term, sk.res, sk.sites, None
