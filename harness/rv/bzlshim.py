"""Executes the Starlark files of the repository under Python with a small shim (no Bazel in this sandbox).
Dialect assumptions (trusted base): string methods as in Python 3 (`startswith` accepts a tuple), dict insertion
order, `fail` aborts, `json.encode_indent`; nothing else of Bazel is needed by `parse_lockfile`."""
from __future__ import annotations

import json as _json
import os
import types


class Label:
    def __init__(self, s):
        self.s = s

    def __str__(self):
        return self.s

    def same_package_label(self, t):
        repo, _, path = self.s.partition("//")
        pkg, _, _ = path.partition(":")
        return Label("%s//%s:%s" % (repo, pkg, t))


class BzlFail(Exception):
    pass


def _fail(msg):
    raise BzlFail(msg)


def load_bzl(path, extra=None):
    with open(path) as f:
        src = f.read()
    g = {"load": lambda *a, **k: None, "fail": _fail, "Label": Label, "struct": lambda **k: types.SimpleNamespace(**k),
         "json": types.SimpleNamespace(encode=_json.dumps, decode=_json.loads,
                                       encode_indent=lambda x, indent="": _json.dumps(x, indent=len(indent))),
         "repository_rule": lambda **k: None,
         "attr": types.SimpleNamespace(**{n: (lambda **k: None) for n in
                                          ["string", "string_dict", "label", "label_keyed_string_dict", "bool", "string_list", "label_list", "int"]}),
         "depset": lambda x: types.SimpleNamespace(to_list=lambda: list(dict.fromkeys(x))), "maybe": None, "whl_repository": None}
    if extra:
        g.update(extra)
    exec(compile(src, path, "exec"), g)
    return g


_cache = {}


def reqs_repo():
    repo = os.environ.get("VERIF_REPO", "/repo")
    key = (os.path.getmtime(os.path.join(repo, "private", "reqs_repo.bzl")), os.path.getmtime(os.path.join(repo, "private", "utils.bzl")))
    if _cache.get("key") != key:
        u = load_bzl(os.path.join(repo, "private", "utils.bzl"))
        g = load_bzl(os.path.join(repo, "private", "reqs_repo.bzl"), {"sanitize_package_name": u["sanitize_package_name"]})
        _cache.update(key=key, g=g, u=u)
    return _cache["g"], _cache["u"]
