"""The solver correspondence stream shared by C01, C02, C08 and C09: random package universes, the real
perform_compile over an in-memory repository, the Lean solver model, and per-property oracles."""
from __future__ import annotations

import contextlib
import io

from rv.core import Stream
from rv import graphlib as GL

PROJECTS = ["a", "b", "c", "d", "e"]
SPELL = {"a": ["a", "A"], "b": ["b", "B"], "c": ["c", "C"], "d": ["d", "D"], "e": ["e", "E"],
         "f-g": ["f-g", "F_G", "f.g"], "h.i": ["h.i", "H-I", "h_i"]}
SHAPES = ["dag-free", "dag-free", "dag-conflict", "dag-conflict", "cyclic", "self", "extras", "extras", "abandon", "late-extra-cycle", "umbrella-extra"]


def gen_spec(rng, p=0.45):
    if rng.random() > p:
        return ""
    op = rng.choice(["==", ">=", "<", "!=", "<=", ">", "~=", "=="])
    v = rng.choice(GL.VERS)
    if op == "==" and rng.random() < 0.25:
        return "==" + v.split(".")[0] + ".*"
    return op + v


def gen_template(rng, shape):
    """two hand-shaped families the random shapes almost never produce:
    abandon          - a walk-back throws an intermediate distribution out while its dependencies are still being iterated,
                       and a survivor requires one of those dependencies too;
    late-extra-cycle - a project is asked for an extra by something that sits below it in the walk (a cycle through an extra)"""
    names = list(PROJECTS + [rng.choice(["f-g", "f-g", "h.i"])])
    rng.shuffle(names)
    lo, hi = sorted(rng.sample(GL.VERS, 2), key=GL.V)
    v = lambda: rng.choice(GL.VERS)
    if shape == "abandon":
        P, C, N, D1, D2, Z = names[:6]
        U = {P: {hi: [C + ">=" + hi, N], lo: [C]}, C: {lo: [], hi: []}, N: {v(): [D1, D2]}, D1: {v(): [C + "<" + hi]},
             D2: {v(): []}, Z: {v(): [D2]}}
        inputs = [[P, Z]] if rng.random() < 0.7 else [[P], [Z]]
    elif shape == "umbrella-extra":
        # a project whose extra `x` asks for the project itself with its other extra (the `pkg[all]` pattern)
        A, S, T, R = names[:4]
        U = {A: {v(): ['%s[y] ; extra == "x"' % A, '%s ; extra == "y"' % S, T]}, S: {v(): []}, T: {v(): []}, R: {v(): ["%s[x]" % A]}}
        inputs = [["%s[x]" % A]] if rng.random() < 0.6 else [[R]]
    else:
        A, B, S, T = names[:4]
        ex = rng.choice(["x", "y"])
        U = {A: {v(): [B, '%s ; extra == "%s"' % (S, ex)]}, B: {v(): ["%s[%s]" % (A, ex)]}, S: {v(): [] if rng.random() < 0.5 else [T]}, T: {v(): []}}
        inputs = [[A]] if rng.random() < 0.6 else [[B]]
    # a little noise: an extra version here and there
    for n in list(U):
        if rng.random() < 0.2:
            U[n].setdefault(v(), [])
    return {"shape": shape, "universe": U, "inputs": inputs, "constraints": [], "remove_constraints": False}


def gen_universe(rng, shape):
    if shape in ("abandon", "late-extra-cycle", "umbrella-extra"):
        return gen_template(rng, shape)
    names = (PROJECTS + ["f-g"])[: rng.randint(2, 6)]
    if rng.random() < 0.3:
        # a project whose canonical name has a separator in it (zope.interface, ruamel.yaml ...) anywhere in the order
        names[rng.randrange(len(names))] = "h.i" if "f-g" in names or rng.random() < 0.6 else "f-g"
    extras_p = 0.35 if shape == "extras" else (0.12 if shape in ("cyclic", "self") else 0.1)
    conflict_p = 0.0 if shape == "dag-free" else 0.3
    U = {}
    for i, n in enumerate(names):
        U[n] = {}
        if shape.startswith("dag") or shape == "extras":
            targets = names[i + 1:]
        elif shape == "cyclic":
            targets = [t for t in names if t != n]
        else:
            targets = names
        for v in rng.sample(GL.VERS, rng.randint(1, 3)):
            reqs = []
            spell = {}
            if targets:
                for _ in range(rng.randint(0, 3)):
                    tk = rng.choice(targets)
                    if tk not in spell or rng.random() < 0.08:
                        spell[tk] = rng.choice(SPELL[tk])
                    t = spell[tk]
                    ex = "[%s]" % rng.choice(["x", "y", "x,y", "X", "p.q"]) if rng.random() < extras_p else ""
                    mk = ' ; extra == "%s"' % rng.choice(["x", "y", "x", "y", "p.q"]) if rng.random() < extras_p else ""
                    if not mk and rng.random() < 0.06:
                        mk = rng.choice([' ; python_version >= "3"', ' ; python_version < "3"'])
                    reqs.append(t + ex + gen_spec(rng, conflict_p) + mk)
            U[n][v] = reqs
    def inp():
        n = rng.choice(names)
        ex = "[%s]" % rng.choice(["x", "y", "x,y", "p.q"]) if rng.random() < (extras_p + 0.1) else ""
        return rng.choice(SPELL[n]) + ex + gen_spec(rng, 0.25 if shape != "dag-free" else 0.1)
    inputs = [[inp() for _ in range(rng.randint(1, 3))] for _ in range(rng.choice([1, 1, 1, 2]))]
    constraints = []
    k = rng.random()
    if k < 0.15:
        constraints = [[rng.choice(SPELL[rng.choice(names)]) + gen_spec(rng, 0.8) for _ in range(rng.randint(1, 2))]]
    elif k < 0.3:
        cons = []
        for n in rng.sample(names, rng.randint(1, len(names))):
            cons.append(rng.choice(SPELL[n]) + "==" + rng.choice(sorted(U[n]) + GL.VERS[:1]))
        constraints = [cons]
    elif k < 0.38:
        # several constraint files, loose and fully pinned ones in either order
        loose = [rng.choice(SPELL[rng.choice(names)]) + (gen_spec(rng, 1.0) or "<9") for _ in range(rng.randint(1, 2))]
        loose = [t for t in loose if "==" not in t or t.endswith(".*")] or [rng.choice(SPELL[names[0]]) + "<9"]
        pinned = [rng.choice(SPELL[n]) + "==" + rng.choice(sorted(U[n])) for n in rng.sample(names, rng.randint(1, min(2, len(names))))]
        constraints = [loose, pinned] if rng.random() < 0.6 else [pinned, loose]
    return {"shape": shape, "universe": U, "inputs": inputs, "constraints": constraints,
            "remove_constraints": rng.random() < 0.15}


def containers(case):
    from req_compile.containers import DistInfo
    ins = [DistInfo("in%d.txt" % i, None, [GL.P(r) for r in rs], meta=True) for i, rs in enumerate(case["inputs"])]
    cons = [DistInfo("con%d.txt" % i, None, [GL.P(r) for r in rs], meta=True) for i, rs in enumerate(case["constraints"])]
    return ins, cons


def enc_for(case):
    GL.reset_caches()
    enc = GL.Enc()
    for U in (case["universe"], case.get("front") or {}):
        for n, vs in U.items():
            for v, reqs in vs.items():
                for t in reqs:
                    enc.table.ids_of(GL.P(t))
    for rs in case["inputs"] + case["constraints"]:
        for t in rs:
            enc.table.ids_of(GL.P(t))
    ne = []
    for n in case["universe"]:
        for v in GL.VERS:
            r = GL.P("%s!=%s" % (n, GL.V(v)))
            ne.append({"key": GL.norm(n), "rank": enc.rank[str(GL.V(v))], "clause": enc.table.ids_of(r)[0]})
    return enc, ne


def split_requirements(case):
    """the case has a requirer (a distribution or an input file) with several requirement entries on one project that
    stand under different markers - the shape the recorded finding D3 needs (one edge label per requirer and project)"""
    groups = [rs for vs in case["universe"].values() for rs in vs.values()] + list(case["inputs"])
    for rs in groups:
        seen = {}
        for t in rs:
            q = GL.P(t)
            seen.setdefault(GL.norm(q.name), []).append(str(q.marker))
        if any(len(set(ms)) > 1 for ms in seen.values()):
            return True
    return False


@contextlib.contextmanager
def observed_region():
    """the region classification of `Run.region` for compiles made by other means (the command line in-process) inside
    the block: yields a function that names the region of everything run so far"""
    import req_compile.dists as D
    overw = {"n": 0}
    orig_add_reason = D.DependencyNode.add_reason

    def add_reason(self_, node, reason):
        old = self_.dependencies.get(node)
        if node in self_.dependencies and old is not None and reason is not None and str(old) != str(reason) \
                and (set(old.extras) != set(reason.extras) or str(old.specifier) != str(reason.specifier)):
            overw["n"] += 1
        return orig_add_reason(self_, node, reason)

    D.DependencyNode.add_reason = add_reason
    try:
        with GL.observe_compile() as o:
            def region():
                if overw["n"]:
                    return "edge-label-overwritten"
                if o["invalidated_self_dep"]:
                    return "self-dependent-invalidated"
                if o["invalidated_on_stack"]:
                    return "invalidated-on-stack"
                if o["walkback"]:
                    return "walk-back"
                return "clean"
            yield region
    finally:
        D.DependencyNode.add_reason = orig_add_reason


class Run:
    """One execution of the real perform_compile."""

    def __init__(self, case, repo=None):
        from req_compile.compile import perform_compile
        from req_compile.errors import NoCandidateException, MetadataError
        import req_compile.dists as D
        self.case = case
        self.enc, self.ne = enc_for(case)
        ins, cons = containers(case)
        self.repo = repo if repo is not None else GL.MemRepo.create(case["universe"])
        self.outcome = None
        self.graph = None
        self.roots = None
        self.exc = None
        overw = {"n": 0}
        orig_add_reason = D.DependencyNode.add_reason

        def add_reason(self_, node, reason):
            old = self_.dependencies.get(node)
            if node in self_.dependencies and old is not None and reason is not None and str(old) != str(reason) \
                    and (set(old.extras) != set(reason.extras) or str(old.specifier) != str(reason.specifier)):
                overw["n"] += 1
            return orig_add_reason(self_, node, reason)

        D.DependencyNode.add_reason = add_reason
        try:
            with GL.observe_compile() as obs, contextlib.redirect_stderr(io.StringIO()), contextlib.redirect_stdout(io.StringIO()):
                try:
                    g, roots = perform_compile(ins, self.repo, constraint_reqs=cons or None,
                                               remove_constraints=case["remove_constraints"])
                    self.outcome, self.graph, self.roots = "ok", g, roots
                except NoCandidateException as ex:
                    self.outcome, self.exc, self.graph = "nocand", ex, ex.results
                except MetadataError as ex:
                    self.outcome, self.exc = "metadata", ex
                except RecursionError as ex:
                    self.outcome, self.exc = "internal:RecursionError", ex
                except Exception as ex:  # internal error escaping perform_compile
                    self.outcome, self.exc = "internal:" + type(ex).__name__, ex
        finally:
            D.DependencyNode.add_reason = orig_add_reason
        self.obs = obs
        self.obs["label_overwrite"] = overw["n"]

    def region(self):
        o = self.obs
        if self._conflicting_pins():
            return "conflicting-pins"
        if o["label_overwrite"]:
            return "edge-label-overwritten"
        if o["invalidated_self_dep"]:
            return "self-dependent-invalidated"
        if o["invalidated_on_stack"]:
            return "invalidated-on-stack"
        if o["walkback"]:
            return "walk-back"
        return "clean"

    def _conflicting_pins(self):
        from rv.common import pins_exactly as is_pinned_requirement
        _, cons = containers(self.case)
        if not cons or not all(is_pinned_requirement(q) for c in cons for q in c.reqs):
            return False
        pins = {}
        for c in cons:
            for q in c.reqs:
                pins.setdefault(GL.norm(q.name), set()).add(str(q.specifier))
        return any(len(v) > 1 for v in pins.values())

    def result(self):
        enc = self.enc
        r = {"outcome": self.outcome, "region": self.region(),
             "obs": {k: self.obs[k] for k in ("walkback", "invalidations", "invalidated_on_stack", "invalidated_self_dep", "label_overwrite", "stack_max")}}
        if self.outcome == "ok":
            r["graph"] = enc.dump(self.graph)
            r["roots"] = sorted(n.key for n in self.roots)
        elif self.outcome == "nocand":
            req = self.exc.req
            r["nocand"] = [GL.norm(req.project_name), enc.table.ids_of(req)]
            r["nocand_text"] = str(req)
            if self.graph is not None:
                r["graph"] = enc.dump(self.graph)
        possible = []
        seen = set()
        for req, ok in self.obs.get("possible_reqs", []):
            cs = tuple(enc.table.ids_of(req))
            if cs not in seen:
                seen.add(cs)
                possible.append({"cs": list(cs), "ok": ok})
        r["possible"] = possible
        return r


def model_request(case, r):
    from rv.common import pins_exactly as is_pinned_requirement
    enc, ne = enc_for(case)
    ins, cons = containers(case)
    from req_compile.containers import DistInfo
    universe = []
    for n, vs in case["universe"].items():
        universe.append({"key": GL.norm(n), "versions": [
            {"rank": enc.rank[str(GL.V(v))], "meta": enc.meta(DistInfo(n, GL.V(v), [GL.P(t) for t in reqs]))} for v, reqs in vs.items()]})
    front = []
    for n, vs in (case.get("front") or {}).items():
        front.append({"key": GL.norm(n), "versions": [
            {"rank": enc.rank[str(GL.V(v))], "meta": enc.meta(DistInfo(n, GL.V(v), [GL.P(t) for t in reqs]))} for v, reqs in vs.items()]})
    return {"op": "compile", "acc": enc.acc(), "orders": enc.orders(), "universe": universe, "front": front, "possible": r["possible"], "ne": ne,
            "inputs": [enc.meta(c) for c in ins],
            "constraints": [{"meta": enc.meta(c), "pinned": [bool(is_pinned_requirement(q)) for q in c.reqs]} for c in cons],
            "removeConstraints": case["remove_constraints"]}


def canon_model(reply):
    if "ok" in reply:
        return {"outcome": "ok", "graph": GL.canon_model_dump(reply["ok"]), "roots": sorted(reply["roots"])}
    if "nocand" in reply:
        return {"outcome": "nocand", "nocand": [reply["nocand"][0], sorted(reply["nocand"][1])],
                "graph": GL.canon_model_dump(reply["graph"])}
    if "internal" in reply:
        return {"outcome": "internal:" + reply["internal"]}
    return reply


def canon_impl(r):
    out = {"outcome": r["outcome"]}
    if r["outcome"] == "ok":
        out["graph"] = r["graph"]
        out["roots"] = r["roots"]
    elif r["outcome"] == "nocand":
        out["nocand"] = [r["nocand"][0], sorted(r["nocand"][1])]
        out["graph"] = r.get("graph")
    return out


# ------------------------------------------------------------------------------------------------
# independent property oracles (computed from the universe and the final pins, not from the graph edges)
# ------------------------------------------------------------------------------------------------

class Solution:
    """The successful result seen from outside: pins, emitted set, containers."""

    def __init__(self, run):
        self.run = run
        g = run.graph
        case = run.case
        self.g = g
        self.ins, self.cons = containers(case)
        self.universe = case["universe"]
        self.by_key = {}
        for n in self.universe:
            self.by_key[GL.norm(n)] = n
        self.pins = {}     # key -> version (packaging Version) for solved non-meta nodes
        for k, n in g.nodes.items():
            if n.metadata is not None and not n.metadata.meta:
                self.pins[k] = n.metadata.version
        reach = set(g.visit_nodes(run.roots))
        self.emitted = {n.key for n in reach if n.metadata is not None and not n.metadata.meta}
        self.reach_unsolved = {n.key for n in reach if n.metadata is None}

    def dist_reqs(self, key):
        name = self.by_key.get(key)
        if name is None or key not in self.pins:
            return None
        for v, reqs in self.universe[name].items():
            if GL.V(v) == self.pins[key]:
                return [GL.P(t) for t in reqs]
        return None

    def closure(self, seeds, extras_of=None):
        """least set of (key -> requested extras) closed under applicable requirements at the final pins.
        With `extras_of` the extras requested of each distribution are given (those requested "by anyone in
        the solve") instead of being accumulated along the walk."""
        from rv.common import applies_under as req_uses_extra
        if extras_of is not None:
            seen = set()
            edges = []
            work = []
            for label, reqs in seeds:
                for q in reqs:
                    if req_uses_extra(q, None):
                        edges.append((label, None, q))
                        work.append(GL.norm(q.name))
            while work:
                k = work.pop()
                if k in seen:
                    continue
                seen.add(k)
                reqs = self.dist_reqs(k)
                if reqs is None:
                    continue
                for ex in [None] + sorted(extras_of.get(k, set())):
                    for q in reqs:
                        if req_uses_extra(q, ex):
                            edges.append((k, ex, q))
                            work.append(GL.norm(q.name))
            return {k: set(extras_of.get(k, set())) for k in seen}, edges
        want = {}
        edges = []      # (requirer label, activating extra, req)
        work = []
        for label, reqs in seeds:
            for q in reqs:
                if req_uses_extra(q, None):
                    edges.append((label, None, q))
                    k = GL.norm(q.name)
                    new = set(q.extras) - want.get(k, set())
                    if k not in want or new:
                        want.setdefault(k, set()).update(q.extras)
                        work.append(k)
        done_with = {}
        while work:
            k = work.pop()
            reqs = self.dist_reqs(k)
            if reqs is None:
                continue
            exs = frozenset(want[k])
            if done_with.get(k) == exs:
                continue
            done_with[k] = exs
            for ex in [None] + sorted(exs):
                for q in reqs:
                    if req_uses_extra(q, ex):
                        edges.append((k, ex, q))
                        t = GL.norm(q.name)
                        new = set(q.extras) - want.get(t, set())
                        if t not in want or new:
                            want.setdefault(t, set()).update(q.extras)
                            work.append(t)
        # recompute edges from the fixed point (extras may have grown after a node was first expanded)
        edges = []
        for label, reqs in seeds:
            for q in reqs:
                if req_uses_extra(q, None):
                    edges.append((label, None, q))
        for k in want:
            reqs = self.dist_reqs(k)
            if reqs is None:
                continue
            for ex in [None] + sorted(want[k]):
                for q in reqs:
                    if req_uses_extra(q, ex):
                        edges.append((k, ex, q))
        return want, edges


def oracle_c01(run):
    fails = []
    if run.outcome != "ok":
        return fails
    S = Solution(run)
    region = run.region()
    if S.reach_unsolved:
        fails.append(("C01/unsolved-on-success/" + region, {"unsolved": sorted(S.reach_unsolved)}))
    # offered
    for k, v in S.pins.items():
        name = S.by_key.get(k)
        if name is None or not any(GL.V(x) == v for x in run.case["universe"][name]):
            fails.append(("C01/version-not-offered/" + region, {"project": k, "version": str(v)}))
    seeds = [(c.name, c.reqs) for c in S.ins] + [(c.name, c.reqs) for c in S.cons]
    want, edges = S.closure(seeds)
    bad = []
    for label, ex, q in edges:
        t = GL.norm(q.name)
        if t in S.pins and not q.specifier.contains(S.pins[t], prereleases=True):
            bad.append({"requirer": label, "extra": ex, "req": str(q), "pin": str(S.pins[t])})
    if bad:
        fails.append(("C01/pin-violates-requirement/" + region, bad[:4]))
    return fails


def oracle_c02(run):
    fails = []
    if run.outcome != "ok":
        return fails
    S = Solution(run)
    region = run.region()
    # extras are those requested "by anyone in the solve" (inputs, constraint files, everything they reach)
    full, _ = S.closure([(c.name, c.reqs) for c in S.ins] + [(c.name, c.reqs) for c in S.cons if GL.norm(c.name) in run.graph.nodes])
    want, edges = S.closure([(c.name, c.reqs) for c in S.ins], extras_of=full)
    expected = set(want)
    missing = sorted(k for k in expected if k not in S.emitted)
    extra = sorted(k for k in S.emitted if k not in expected)
    if missing:
        fails.append(("C02/closure-missing/" + region, {"missing": missing, "emitted": sorted(S.emitted)}))
    if extra:
        stale = "stale-extra-edge" if region == "clean" and _has_stale_extra(run) else region
        fails.append(("C02/not-minimal/" + stale, {"left_over": extra, "emitted": sorted(S.emitted)}))
    return fails


def _has_stale_extra(run):
    from rv.props.c10 import check_graph
    try:
        roots = {n.key for n in run.roots} | {GL.norm("con%d.txt" % i) for i in range(len(run.case["constraints"]))}
        return "edge-stale-extra" in check_graph(run.graph, roots)
    except Exception:
        return False


def expected_explanations(S, target):
    """the requirer relation of `target` computed from the universe and the final pins"""
    # a constraint file is a requirer "in the solve" when it is part of the result (it is left out only for
    # fully pinned files under --remove-constraints)
    cons = [c for c in S.cons if GL.norm(c.name) in S.run.graph.nodes]
    want, edges = S.closure([(c.name, c.reqs) for c in S.ins] + [(c.name, c.reqs) for c in cons])
    out = []
    for label, ex, q in edges:
        if GL.norm(q.name) != target:
            continue
        out.append((label, ex, q))
    return out


def render_entry(source_name, q):
    """what dists._process_constraint_req must print for requirement q of the named requirer"""
    extras = set()
    if q.marker:
        for m in q.marker._markers:
            if isinstance(m, tuple) and m[0].value == "extra" and m[1].value == "==":
                extras.add(m[2].value.strip().lower())
    src = source_name + (("[" + ",".join(sorted(extras)) + "]") if extras else "")
    spec = str(q.specifier) if q.specifier else ""
    if q.extras:
        spec += " [%s]" % ",".join(sorted(e.strip().lower() for e in q.extras))
    if spec:
        spec = " (%s)" % spec.strip()
    return src + spec


def oracle_c08(run):
    from req_compile.dists import build_explanation
    fails = []
    if run.outcome != "ok":
        return fails
    S = Solution(run)
    region = run.region()
    names = {}
    for k, n in run.graph.nodes.items():
        if n.metadata is not None:
            names[k] = n.metadata.name
    for c in S.ins + S.cons:
        names[c.name] = c.name
    for k in sorted(S.emitted):
        node = run.graph.nodes[k]
        try:
            got = sorted(build_explanation(node))
        except Exception as ex:
            fails.append(("C08/explanation-raises/" + region, {"pin": k, "exc": type(ex).__name__}))
            continue
        exp_edges = expected_explanations(S, k)
        # requires(extra) merges the requirements of one requirer on one project per extra; the relation is
        # compared entry-wise on (requirer, clause set, requested extras, activating extras) after that merge
        from req_compile.containers import RequirementContainer
        exp = set()
        groups = {}
        for label, ex, q in exp_edges:
            groups.setdefault((label, ex), []).append(q)
        for (label, ex), qs in groups.items():
            for m in RequirementContainer("x", qs).requires(ex):
                if GL.norm(m.name) == k:
                    exp.add(render_entry(names.get(label, label), m))
        # D3 reaches an annotation through the extras *of the requirer* (`node.extras` is read off the labels of the edges
        # into the requirer): the region is "some requirer of this pin is itself required twice, under different extras,
        # by one of its own requirers" - not "this pin is required twice by one requirer", which build_explanation handles
        # (it reads the requirer's declared requirements, not the edge label)
        upstream = False
        for lab in {label for label, _, _ in exp_edges}:
            rk = GL.norm(lab)
            if rk in S.emitted and case_split(expected_explanations(S, rk)):
                upstream = True
        reg = "edge-label-overwritten" if upstream else region
        if set(got) != exp:
            if reg == "clean" and _has_stale_extra(run):
                reg = "stale-extra-edge"
            # a requirer that is printed but is neither pinned nor an input is a different symptom (an abandoned
            # requirer shows up) from a wrong or missing entry of a legitimate requirer
            legit = {names.get(e, e) for e in S.emitted} | {c.name for c in S.ins + S.cons}
            ghosts = sorted({g.split(" ")[0].split("[")[0] for g in got} - legit)
            sym = "annotation-names-abandoned-requirer" if ghosts else "annotation-differs"
            if ghosts:
                # an abandoned requirer is left behind by an invalidation, not by an overwritten label: the region is the
                # run's; without any recorded conflict handling it is a cycle of projects (or a project requiring itself)
                # that reference counting does not collect once its last outside requirer is gone
                reg = region
                if reg == "clean" and set(ghosts) <= _uncollected_cycles(run, names):
                    reg = "uncollected-cycle"
            fails.append(("C08/%s/%s" % (sym, reg), {"pin": k, "printed": got, "expected": sorted(exp), "not_in_solution": ghosts}))
    return fails


def _uncollected_cycles(run, names):
    """printed names of solved nodes that are not reachable from the roots and sit on a dependency cycle"""
    g = run.graph
    reach, todo = set(), list(run.roots)
    while todo:
        n = todo.pop()
        if id(n) in reach:
            continue
        reach.add(id(n))
        todo.extend(n.dependencies)
    out = set()
    for k, n in g.nodes.items():
        if id(n) in reach or n.metadata is None:
            continue
        seen, todo = set(), list(n.dependencies)
        while todo:
            m = todo.pop()
            if id(m) in seen:
                continue
            seen.add(id(m))
            todo.extend(m.dependencies)
        if id(n) in seen:
            out.add(names.get(k, k))
    return out


def case_split(edges):
    seen = {}
    for label, ex, q in edges:
        seen.setdefault(label, set()).add(ex)
    return any(len(v) > 1 for v in seen.values())


def oracle_c09(run):
    fails = []
    region = run.region()
    if run.outcome.startswith("internal"):
        fails.append(("C09/%s/%s" % (run.outcome.replace(":", "-"), region), {"exc": repr(run.exc)[:300]}))
    elif run.outcome == "nocand":
        req = run.exc.req
        name = None
        for n in run.case["universe"]:
            if GL.norm(n) == GL.norm(req.project_name):
                name = n
        if name is not None:
            sat = [v for v in run.case["universe"][name] if req.specifier.contains(GL.V(v), prereleases=True)]
            if sat:
                fails.append(("C09/nocandidate-but-candidate-exists/" + region, {"req": str(req), "satisfying": sat}))
        # the chains reported by the CLI must be real: checked in the CLI stream
    elif run.outcome == "ok":
        # "a solution": nothing of the conflict machinery may be left in what is returned
        left = sorted(k for k in run.graph.nodes if k.startswith("#bad#"))
        if left:
            fails.append(("C09/success-with-temporary-exclusion-left/" + region, {"nodes": left}))
    return fails


ORACLES = {"C01": oracle_c01, "C02": oracle_c02, "C08": oracle_c08, "C09": oracle_c09}


class CompileStream(Stream):
    name = "compile"
    batch = 150

    def __init__(self, prop, quick_n=1200, thorough_n=80000, weights=None):
        self.prop = prop
        self.quick_n = quick_n
        self.thorough_n = thorough_n
        self.weights = weights or SHAPES

    def generate(self, rng):
        return gen_universe(rng, rng.choice(self.weights))

    def impl(self, case):
        run = Run(case)
        r = run.result()
        r["oracle"] = [[sig, detail] for sig, detail in ORACLES[self.prop](run)]
        return r

    def model_request(self, case, r):
        return model_request(case, r)

    def model_result(self, reply):
        return canon_model(reply)

    def compare(self, case, r, m):
        return canon_impl(r) == m

    def oracle(self, case, r):
        return [(sig, detail) for sig, detail in r["oracle"]]

    def flags(self, case, r):
        fl = [case["shape"], "outcome:" + r["outcome"].split(":")[0], "region:" + r["region"]]
        if case["constraints"]:
            fl.append("constraints")
        if r["obs"]["invalidations"]:
            fl.append("invalidation")
        if r["obs"]["walkback"]:
            fl.append("walk-back")
        return fl

    def shrink(self, case):
        U = case["universe"]
        for n in list(U):
            if len(U) > 1:
                yield dict(case, universe={k: v for k, v in U.items() if k != n})
        for n in U:
            for v in list(U[n]):
                if len(U[n]) > 1:
                    yield dict(case, universe={k: ({vv: rr for vv, rr in vs.items() if vv != v} if k == n else vs) for k, vs in U.items()})
        for n in U:
            for v in U[n]:
                for j in range(len(U[n][v])):
                    yield dict(case, universe={k: ({vv: (rr[:j] + rr[j + 1:] if (k == n and vv == v) else rr) for vv, rr in vs.items()}) for k, vs in U.items()})
        for i in range(len(case["inputs"])):
            if len(case["inputs"]) > 1:
                yield dict(case, inputs=case["inputs"][:i] + case["inputs"][i + 1:])
            for j in range(len(case["inputs"][i])):
                if len(case["inputs"][i]) > 1:
                    ins = [list(x) for x in case["inputs"]]
                    del ins[i][j]
                    yield dict(case, inputs=ins)
        if case["constraints"]:
            yield dict(case, constraints=[])
