"""Core of the verification harness: Lean build + axiom audit, correspondence streams against the
compiled Lean driver, property oracles, known findings, verdict, evidence and replay files.

Runs under /venv/bin/python with /repo first on sys.path (the working tree is what is imported).
"""
from __future__ import annotations

import collections
import fcntl
import hashlib
import importlib
import json
import multiprocessing
import os
import random
import re
import subprocess
import sys
import time
import traceback

VERIF = os.path.dirname(os.path.dirname(os.path.dirname(os.path.abspath(__file__))))
LEAN_DIR = os.path.join(VERIF, "lean")
REPO = os.environ.get("VERIF_REPO", "/repo")
DRIVER = os.path.join(LEAN_DIR, ".lake", "build", "bin", "rvdriver")
ALLOWED_AXIOMS = {"propext", "Classical.choice", "Quot.sound"}
FORBIDDEN = re.compile(r"\b(sorry|admit|native_decide|bv_decide|implemented_by)\b|^\s*axiom\s|\bunsafe\s|maxHeartbeats\s+0\b")

TRUSTED_BASE = [
    "Lean 4.33.0 kernel and elaborator (leanchecker re-check in the thorough tier)",
    "axioms allowed in #print axioms: propext, Classical.choice, Quot.sound (audited every run); no native_decide/bv_decide/sorry/own axioms",
    "the Python correspondence harness (generators, encoders, canonicalisation) and translate.py (source -> ReqVerif/Generated.lean)",
    "rvdriver's I/O shell (JSON line parsing/printing compiled by leanc); it calls the same definitions the theorems are about",
    "third-party libraries treated as parameters and monitored per run: packaging/pkg_resources, html.parser, zipfile/tarfile, email.parser, argparse, pip's req_file (reference only)",
]


def setup_repo_path():
    if REPO not in sys.path[:1]:
        sys.path.insert(0, REPO)
    os.environ.setdefault("REQ_COMPILE_VERIF", "1")
    import logging
    import warnings
    logging.disable(logging.CRITICAL)
    warnings.simplefilter("ignore")


def digest(obj) -> str:
    return hashlib.sha256(json.dumps(obj, sort_keys=True, default=str).encode()).hexdigest()[:16]


def sh(cmd, cwd=None, timeout=3600, env=None):
    p = subprocess.run(cmd, cwd=cwd, stdout=subprocess.PIPE, stderr=subprocess.STDOUT, text=True,
                       timeout=timeout, env=env)
    return p.returncode, p.stdout


# the original, whatever the code under test may leave substituted in the subprocess module (finding D24)
_POPEN = subprocess.Popen

class BuildLock:
    def __enter__(self):
        os.makedirs(os.path.join(LEAN_DIR, ".lake"), exist_ok=True)
        self.f = open(os.path.join(LEAN_DIR, ".lake", "verif.lock"), "w")
        fcntl.flock(self.f, fcntl.LOCK_EX)
        return self

    def __exit__(self, *a):
        fcntl.flock(self.f, fcntl.LOCK_UN)
        self.f.close()


# ----------------------------------------------------------------------------------------------
# Lean side: regenerate, build, audit
# ----------------------------------------------------------------------------------------------

def load_registry():
    with open(os.path.join(VERIF, "props_registry.json")) as f:
        return json.load(f)


def regenerate():
    """Rewrite ReqVerif/Generated.lean from /repo's working tree (only when the text changes).
    Returns (ok, digest, notes)."""
    from rv import translate
    try:
        text, notes = translate.generate(REPO)
    except Exception as ex:  # translator could not follow the source any more
        return False, None, ["translator failed: %r" % (ex,)]
    path = os.path.join(LEAN_DIR, "ReqVerif", "Generated.lean")
    old = None
    if os.path.exists(path):
        with open(path) as f:
            old = f.read()
    if old != text:
        with open(path, "w") as f:
            f.write(text)
    return True, hashlib.sha256(text.encode()).hexdigest()[:16], notes


def lake_build(targets):
    rc, out = sh(["lake", "build"] + targets, cwd=LEAN_DIR, timeout=3000)
    return rc == 0, out


def grep_forbidden(modules):
    hits = []
    for root, _dirs, files in os.walk(os.path.join(LEAN_DIR, "ReqVerif")):
        for fn in files:
            if not fn.endswith(".lean"):
                continue
            path = os.path.join(root, fn)
            in_block = 0
            with open(path) as f:
                for ln, line in enumerate(f, 1):
                    # strip comments (block comments may nest; good enough: track depth per line)
                    text = line
                    if in_block:
                        if "-/" in text:
                            in_block -= 1
                            text = text.split("-/", 1)[1]
                        else:
                            continue
                    if "/-" in text:
                        head, _, tail = text.partition("/-")
                        if "-/" not in tail:
                            in_block += 1
                        text = head
                    text = text.split("--", 1)[0]
                    if FORBIDDEN.search(text):
                        hits.append("%s:%d: %s" % (os.path.relpath(path, LEAN_DIR), ln, line.strip()))
    if os.path.exists(os.path.join(LEAN_DIR, "Driver.lean")):
        pass
    return hits


def audit(prop, theorems, modules):
    """#print axioms for every registered theorem. Returns dict name -> list of axioms or None."""
    os.makedirs(os.path.join(LEAN_DIR, ".lake", "audit"), exist_ok=True)
    path = os.path.join(LEAN_DIR, ".lake", "audit", "Audit_%s.lean" % prop)
    with open(path, "w") as f:
        for m in modules:
            f.write("import %s\n" % m)
        for t in theorems:
            f.write("#print axioms %s\n" % t)
    rc, out = sh(["lake", "env", "lean", path], cwd=LEAN_DIR, timeout=1200)
    result = {t: None for t in theorems}
    # messages: "'RV.name' depends on axioms: [propext, ...]" or "'RV.name' does not depend on any axioms"
    for m in re.finditer(r"'([^']+)' (does not depend on any axioms|depends on axioms: \[([^\]]*)\])", out.replace("\n", " ")):
        name = m.group(1)
        axs = [] if m.group(3) is None else [a.strip() for a in m.group(3).split(",") if a.strip()]
        if name in result:
            result[name] = axs
    return result, out


# ----------------------------------------------------------------------------------------------
# Driver
# ----------------------------------------------------------------------------------------------

class Driver:
    """One rvdriver subprocess; requests are JSON objects, one per line; replies are JSON, one per line."""

    def __init__(self):
        self.p = None

    def start(self):
        if self.p is None:
            self.p = _POPEN([DRIVER], stdin=subprocess.PIPE, stdout=subprocess.PIPE, text=True, bufsize=1 << 20)

    def ask_many(self, reqs):
        """Batch: write all requests, read all replies (a writer thread avoids pipe deadlock)."""
        if not reqs:
            return []
        self.start()
        import threading
        data = "".join(json.dumps(r, separators=(",", ":")) + "\n" for r in reqs)

        def w():
            self.p.stdin.write(data)
            self.p.stdin.flush()

        t = threading.Thread(target=w)
        t.start()
        out = []
        for _ in reqs:
            line = self.p.stdout.readline()
            if not line:
                raise RuntimeError("rvdriver died")
            try:
                out.append(json.loads(line))
            except Exception:
                out.append({"bad-reply": line.strip()})
        t.join()
        return out

    def close(self):
        if self.p is not None:
            try:
                self.p.stdin.close()
                self.p.wait(timeout=10)
            except Exception:
                self.p.kill()
            self.p = None


# ----------------------------------------------------------------------------------------------
# Streams
# ----------------------------------------------------------------------------------------------

class Stream:
    """A correspondence + oracle stream. Subclasses override the hooks below.

    generate(rng) -> case (JSON-serialisable)
    impl(case) -> canonical result of the real code (JSON-serialisable)
    model_request(case, impl_result) -> dict for rvdriver, or None when the stream has no model side
    model_result(reply) -> canonical result comparable with impl(case)
    oracle(case, impl_result) -> list of (signature, detail) property failures on the implementation
    flags(case, impl_result) -> iterable of branch flags (distribution; a case is non-trivial when it has one)
    """
    name = "stream"
    quick_n = 200
    thorough_n = 5000
    batch = 250
    parallel_quick = 1

    def corpus(self):
        return []

    def generate(self, rng):
        raise NotImplementedError

    def impl(self, case):
        raise NotImplementedError

    def model_request(self, case, impl_result):
        return None

    def model_result(self, reply):
        return reply

    def compare(self, case, impl_result, model_result):
        return impl_result == model_result

    def oracle(self, case, impl_result):
        return []

    def flags(self, case, impl_result):
        return []

    def shrink(self, case):
        return []

    def setup(self):
        pass

    def teardown(self):
        pass


def _run_cases(stream, cases, driver, summary, oracle_only=False):
    impl_results = []
    for case in cases:
        try:
            r = stream.impl(case)
        except Exception as ex:  # harness trouble: the stream's impl() must catch what the code may raise
            r = {"harness-exception": "%s: %s" % (type(ex).__name__, ex), "tb": traceback.format_exc()[-1500:]}
        impl_results.append(r)
    reqs, idx = [], []
    if not oracle_only:
        for i, (case, r) in enumerate(zip(cases, impl_results)):
            if isinstance(r, dict) and "harness-exception" in r:
                continue
            q = stream.model_request(case, r)
            if q is not None:
                reqs.append(q)
                idx.append(i)
    replies = driver.ask_many(reqs) if reqs else []
    model_by_i = {i: rep for i, rep in zip(idx, replies)}
    for i, (case, r) in enumerate(zip(cases, impl_results)):
        summary["evaluations"] += 1
        if isinstance(r, dict) and "harness-exception" in r:
            summary["harness_error_count"] += 1
            if len(summary["harness_errors"]) < 20:
                summary["harness_errors"].append({"case": case, "error": r})
            continue
        fl = sorted(set(stream.flags(case, r)))
        for f in fl:
            summary["distribution"][f] += 1
        d = digest(case)
        if fl:
            summary["nontrivial_digests"].add(d)
        if len(summary["samples"]) < 3 and (fl or len(summary["samples"]) < 1):
            summary["samples"].append({"stream": stream.name, "case": case, "impl": r, "flags": fl})
        if i in model_by_i:
            summary["corr_cases"] += 1
            try:
                m = stream.model_result(model_by_i[i])
                same = stream.compare(case, r, m)
            except Exception as ex:
                m, same = {"bad-model-reply": repr(model_by_i[i])[:500], "exc": repr(ex)}, False
            if same:
                summary["corr_agreed"] += 1
            elif len(summary["disagreements"]) < 50:
                summary["disagreements"].append({"stream": stream.name, "case": case, "impl": r, "model": m})
            else:
                summary["disagreements_more"] += 1
        try:
            fails = stream.oracle(case, r)
        except Exception as ex:
            summary["harness_errors"].append({"case": case, "error": "oracle raised %r" % (ex,), "tb": traceback.format_exc()[-1500:]})
            fails = []
        summary["oracle_cases"] += 1
        for sig, detail in fails:
            summary["oracle_fail_count"][sig] += 1
            # keep a few examples per signature, so that a flood of known findings can never crowd out a new one
            if sum(1 for f in summary["oracle_failures"] if f["signature"] == sig) < 3:
                summary["oracle_failures"].append({"stream": stream.name, "signature": sig, "case": case, "impl": r, "detail": detail})


def new_summary():
    return {"evaluations": 0, "corr_cases": 0, "corr_agreed": 0, "disagreements": [], "disagreements_more": 0,
            "oracle_cases": 0, "oracle_failures": [], "oracle_fail_count": collections.Counter(),
            "distribution": collections.Counter(), "nontrivial_digests": set(), "samples": [], "harness_errors": [],
            "harness_error_count": 0}


def merge_summary(a, b):
    for k in ("evaluations", "corr_cases", "corr_agreed", "disagreements_more", "oracle_cases", "harness_error_count"):
        a[k] += b[k]
    a["disagreements"] = (a["disagreements"] + b["disagreements"])[:50]
    for f in b["oracle_failures"]:
        if sum(1 for g in a["oracle_failures"] if g["signature"] == f["signature"]) < 3:
            a["oracle_failures"].append(f)
    a["oracle_fail_count"].update(b["oracle_fail_count"])
    a["distribution"].update(b["distribution"])
    a["nontrivial_digests"] |= b["nontrivial_digests"]
    a["samples"] = (a["samples"] + b["samples"])[:4]
    a["harness_errors"] = (a["harness_errors"] + b["harness_errors"])[:20]
    return a


def _worker(args):
    prop, stream_name, seed_text, n, oracle_only, with_corpus = args
    setup_repo_path()
    mod = importlib.import_module("rv.props." + prop.lower())
    stream = [s for s in mod.streams() if s.name == stream_name][0]
    rng = random.Random(seed_text)
    summary = new_summary()
    driver = Driver()
    stream.setup()
    try:
        if with_corpus:
            cases = list(stream.corpus())
            # witnesses of recorded findings (open and fixed) always run first
            for f in load_findings(prop):
                for w in f.get("witnesses", []) or ([f["witness"]] if f.get("witness") else []):
                    if w.get("stream") == stream.name and "input" in w:
                        cases.append(w["input"])
            if cases:
                _run_cases(stream, cases, driver, summary, oracle_only)
        done = 0
        while done < n:
            k = min(stream.batch, n - done)
            cases = []
            for _ in range(k):
                try:
                    cases.append(stream.generate(rng))
                except Exception:
                    summary["harness_errors"].append({"error": "generate raised", "tb": traceback.format_exc()[-1500:]})
            _run_cases(stream, cases, driver, summary, oracle_only)
            done += k
    finally:
        stream.teardown()
        driver.close()
    return summary


def run_stream(prop, stream, seed, tier, workers, oracle_only=False, factor=1.0, salt=""):
    n = int((stream.thorough_n if tier == "thorough" else stream.quick_n) * factor)
    w = workers if tier == "thorough" else getattr(stream, "parallel_quick", 1)
    w = max(1, min(w, n // max(1, stream.batch // 4) or 1))
    per = (n + w - 1) // w
    jobs = [(prop, stream.name, "%s|%s|%s|%d%s" % (seed, prop, stream.name, i, salt), per, oracle_only, i == 0 and not salt)
            for i in range(w)]
    total = new_summary()
    if w == 1:
        merge_summary(total, _worker(jobs[0]))
    else:
        with multiprocessing.get_context("fork").Pool(w) as pool:
            for s in pool.imap_unordered(_worker, jobs):
                merge_summary(total, s)
    return total


# ----------------------------------------------------------------------------------------------
# Known findings
# ----------------------------------------------------------------------------------------------

def load_findings(prop):
    path = os.path.join(VERIF, "known_findings.json")
    if not os.path.exists(path):
        return []
    with open(path) as f:
        data = json.load(f)
    return [e for e in data.get("findings", []) if e.get("property") == prop]


# ----------------------------------------------------------------------------------------------
# The check
# ----------------------------------------------------------------------------------------------

def write_replay(prop, payload):
    os.makedirs(os.path.join(VERIF, "replays"), exist_ok=True)
    name = "%s-%s.json" % (prop, digest(payload))
    path = os.path.join(VERIF, "replays", name)
    with open(path, "w") as f:
        json.dump(payload, f, indent=1, sort_keys=True, default=str)
    return os.path.join("replays", name)


def repo_state():
    rc, head = sh(["git", "-C", REPO, "rev-parse", "HEAD"])
    rc2, dirty = sh(["git", "-C", REPO, "status", "--porcelain", "--untracked-files=no"])
    return head.strip(), [l.strip() for l in dirty.splitlines() if l.strip()][:50]


def shrink_case(stream, case, still_fails, budget=300):
    cur = case
    changed = True
    n = 0
    while changed and n < budget:
        changed = False
        for cand in stream.shrink(cur):
            n += 1
            if n > budget:
                break
            try:
                if still_fails(cand):
                    cur = cand
                    changed = True
                    break
            except Exception:
                continue
    return cur


def run_check(prop, tier, seed, replay=None):
    t0 = time.time()
    setup_repo_path()
    registry = load_registry()
    entry = registry[prop]
    mod = importlib.import_module("rv.props." + prop.lower())
    streams = mod.streams()
    workers = int(os.environ.get("VERIF_WORKERS", "16"))
    lines = []  # stdout lines (VIOLATION / KNOWN-FINDING)
    head, dirty = repo_state()

    if replay:
        return run_replay(prop, mod, streams, replay)

    # 1-2. regenerate, build, audit
    broken = []  # names of theorems / obligations that no longer check
    with BuildLock():
        gen_ok, gen_digest, gen_notes = regenerate()
        if not gen_ok:
            broken.append({"obligation": "translator", "detail": gen_notes})
        ok_driver, out_driver = lake_build(["rvdriver"])
        if not ok_driver:
            print(out_driver[-4000:])
            print("INFRA: the Lean driver does not build")
            return 2
        modules = entry["modules"]
        ok_props, out_props = lake_build(modules)
        theorems = entry["theorems"]
        if ok_props:
            axioms, audit_out = audit(prop, theorems, modules)
        else:
            # find which modules/theorems fail: build each module separately
            axioms = {t: None for t in theorems}
            audit_out = out_props
            good_modules = []
            for m in modules:
                okm, _ = lake_build([m])
                if okm:
                    good_modules.append(m)
            if good_modules:
                axioms, _ = audit(prop, theorems, good_modules)
        forbidden = grep_forbidden(modules)
    discharged = 0
    theorem_report = []
    for t in theorems:
        axs = axioms.get(t)
        good = axs is not None and set(axs) <= ALLOWED_AXIOMS
        theorem_report.append({"name": t, "axioms": axs, "ok": good})
        if good:
            discharged += 1
        else:
            broken.append({"obligation": t, "detail": "does not check" if axs is None else "axioms %s" % axs})
    if forbidden:
        broken.append({"obligation": "forbidden-constructs", "detail": forbidden[:10]})

    # 3-4. correspondence + oracle
    total = new_summary()
    per_stream = {}
    for s in streams:
        sm = run_stream(prop, s, seed, tier, workers)
        per_stream[s.name] = {"cases": sm["corr_cases"], "agreed": sm["corr_agreed"],
                              "evaluations": sm["evaluations"],
                              "distribution": dict(sm["distribution"].most_common(40))}
        merge_summary(total, sm)

    if total["harness_error_count"] and not total["disagreements"] and not total["oracle_failures"]:
        # harness trouble is never a violation
        if total["harness_error_count"] > max(3, total["evaluations"] // 50):
            print(json.dumps(total["harness_errors"][:2], indent=1, default=str)[:4000])
            print("INFRA: harness errors on %d cases (the implementation could not be exercised)" % total["harness_error_count"])
            return 2

    corr_broken = bool(total["disagreements"])
    if corr_broken:
        broken.append({"obligation": "correspondence", "detail": "%d disagreement(s), first on stream %s" % (
            len(total["disagreements"]) + total["disagreements_more"], total["disagreements"][0]["stream"])})

    # failing-input search when something is broken: wider oracle pass on fresh seeds
    if broken:
        for s in streams:
            extra = run_stream(prop, s, seed, tier, workers, oracle_only=True,
                               factor=float(os.environ.get("VERIF_SEARCH_FACTOR", "3")), salt="|search")
            for f in extra["oracle_failures"]:
                if sum(1 for g in total["oracle_failures"] if g["signature"] == f["signature"]) < 3:
                    total["oracle_failures"].append(f)
            total["oracle_fail_count"].update(extra["oracle_fail_count"])
            total["oracle_cases"] += extra["oracle_cases"]
            total["evaluations"] += extra["evaluations"]

    # an environment variable the models do not know (the ambient-inputs theorem of this property no longer checks): the
    # streams are run again with that variable set, one value at a time
    if any(b["obligation"].startswith("RV.Ambient.env_reads_") for b in broken):
        from rv import ambient
        try:
            exp = json.load(open(os.path.join(VERIF, "ambient_expected.json")))[prop]
            now = ambient.scan(os.environ.get("VERIF_REPO", "/repo"))
            unknown = sorted({n for f in exp["files"] for n in now.get(f, []) if n not in exp["reads"].get(f, []) and not n.startswith("<")})
        except Exception:
            unknown = []
        for name in unknown[:3]:
            for value in ambient.ENV_VALUES:
                saved = os.environ.get(name)
                os.environ[name] = value
                try:
                    for s in streams:
                        extra = run_stream(prop, s, seed, tier, workers, oracle_only=True, factor=1.0, salt="|env:%s=%s" % (name, value))
                        for f in extra["oracle_failures"]:
                            f["case"] = dict(f["case"], __env__={name: value}) if isinstance(f["case"], dict) else f["case"]
                            f["signature"] = f["signature"] + "/env:" + name
                            if sum(1 for g in total["oracle_failures"] if g["signature"] == f["signature"]) < 3:
                                total["oracle_failures"].append(f)
                        total["oracle_fail_count"].update({k + "/env:" + name: v for k, v in extra["oracle_fail_count"].items()})
                        total["oracle_cases"] += extra["oracle_cases"]
                        total["evaluations"] += extra["evaluations"]
                finally:
                    if saved is None:
                        os.environ.pop(name, None)
                    else:
                        os.environ[name] = saved

    # directed search: the cases on which model and implementation differ are handed to the property module, which
    # may turn them into inputs of another (slower, closer to the user) stream's oracle
    if corr_broken and hasattr(mod, "directed"):
        try:
            todo = mod.directed(total["disagreements"])
        except Exception:
            todo = []
            total["harness_errors"].append({"error": "directed() raised", "tb": traceback.format_exc()[-1500:]})
        for sname in sorted({n for n, _ in todo}):
            st = [s for s in streams if s.name == sname][0]
            cases = [c for n, c in todo if n == sname]
            extra = new_summary()
            st.setup()
            try:
                _run_cases(st, cases, None, extra, oracle_only=True)
            finally:
                st.teardown()
            for f in extra["oracle_failures"]:
                if sum(1 for g in total["oracle_failures"] if g["signature"] == f["signature"]) < 3:
                    total["oracle_failures"].append(f)
            total["oracle_fail_count"].update(extra["oracle_fail_count"])
            total["oracle_cases"] += extra["oracle_cases"]
            total["evaluations"] += extra["evaluations"]

    # 5. verdict
    findings = load_findings(prop)
    open_sigs = {}
    for f in findings:
        if f.get("status") == "open":
            for sg in f.get("signatures", []) or [f["signature"]]:
                open_sigs[sg] = f
    known_hits = collections.Counter()
    unknown = []
    for f in total["oracle_failures"]:
        if f["signature"] not in open_sigs:
            unknown.append(f)
    for sig, n in total["oracle_fail_count"].items():
        if sig in open_sigs:
            known_hits[sig] = n
    # witnesses of open findings are replayed by the property module (mod.known_witnesses) as corpus cases
    violations = 0
    rc = 0
    by_finding = collections.OrderedDict()
    for sig, fnd in sorted(open_sigs.items()):
        by_finding.setdefault(fnd["id"], [fnd, 0])
        by_finding[fnd["id"]][1] += known_hits.get(sig, 0)
    for fid, (fnd, n) in by_finding.items():
        if n:
            lines.append("KNOWN-FINDING: property=%s %s [%s] (%d case(s) this run)" % (prop, fnd["text"], fid, n))
        else:
            lines.append("NOTE: listed finding %s did not manifest in this run" % fid)
    if unknown:
        by_sig = collections.OrderedDict()
        for f in unknown:
            by_sig.setdefault(f["signature"], f)
        for sig, f in by_sig.items():
            st = [s for s in streams if s.name == f["stream"]][0]
            st.setup()

            env_extra = f["case"].get("__env__") if isinstance(f["case"], dict) else None
            base_sig = sig.split("/env:")[0] if env_extra else sig
            if env_extra:
                os.environ.update(env_extra)

            def still(c, st=st, sig=base_sig):
                r = st.impl(c)
                return any(s2 == sig for s2, _ in st.oracle(c, r))
            small = shrink_case(st, f["case"], still, budget=getattr(st, "shrink_budget", 300))
            r = st.impl(small)
            path = write_replay(prop, {"property": prop, "kind": "failing-input", "seed": seed, "tier": tier,
                                       "stream": f["stream"], "signature": sig, "input": small,
                                       "implementation_result": r, "oracle_detail": [d for s2, d in st.oracle(small, r) if s2 == base_sig][:3] or f["detail"],
                                       "broken": broken, "repo_head": head, "repo_dirty_files": dirty,
                                       "how_to_replay": "./check %s --replay <this file>" % prop})
            st.teardown()
            if env_extra:
                for k in env_extra:
                    os.environ.pop(k, None)
            lines.append("VIOLATION property=%s replay=%s" % (prop, path))
            violations += 1
        rc = 1
    elif broken:
        # broken obligation, no failing input found
        first_dis = total["disagreements"][0] if total["disagreements"] else None
        path = write_replay(prop, {"property": prop, "kind": "no-failing-input-found", "seed": seed, "tier": tier,
                                   "broken": broken, "first_disagreement": first_dis,
                                   "build_output_tail": (audit_out or "")[-3000:] if any(b["obligation"] not in ("correspondence",) for b in broken) else None,
                                   "searched": {"oracle_cases": total["oracle_cases"]},
                                   "repo_head": head, "repo_dirty_files": dirty,
                                   "how_to_replay": "./check %s --replay <this file>" % prop})
        lines.append("VIOLATION property=%s replay=%s no-failing-input-found" % (prop, path))
        violations += 1
        rc = 1

    # 6. evidence
    wall = time.time() - t0
    coverage = {
        "obligations": len(theorems),
        "discharged": discharged,
        "checker_cmd": "cd lean && lake build %s && lake env lean .lake/audit/Audit_%s.lean" % (" ".join(modules), prop),
        "trusted_base": TRUSTED_BASE + list(getattr(mod, "TRUSTED_EXTRA", [])),
        "theorems": theorem_report,
        "generated_digest": gen_digest,
        "generated_notes": gen_notes,
        "forbidden_constructs": forbidden,
        "correspondence": per_stream,
        "disagreements": len(total["disagreements"]) + total["disagreements_more"],
        "oracle": {"cases": total["oracle_cases"], "failing": sum(total["oracle_fail_count"].values()),
                   "by_signature": dict(total["oracle_fail_count"]), "known": dict(known_hits)},
        "evaluations": total["evaluations"],
        "distinct_nontrivial": len(total["nontrivial_digests"]),
        "rule": getattr(mod, "RULE", "cases are generated from random.Random(VERIF_SEED); a case is non-trivial when it hits at least one branch flag listed under correspondence.*.distribution; distinct = distinct canonical JSON of the case"),
        "samples": total["samples"] or [{"note": "no generated case"}],
        "broken": broken,
        "harness_errors": len(total["harness_errors"]),
        "repo_head": head, "repo_dirty_files": dirty,
    }
    evidence = {
        "property_id": prop, "tier": tier, "seed": seed, "level": "proof", "coverage": coverage,
        "assumptions": list(getattr(mod, "ASSUMPTIONS", [])),
        "wall_s": round(wall, 2), "violations": violations,
    }
    os.makedirs(os.path.join(VERIF, "evidence"), exist_ok=True)
    with open(os.path.join(VERIF, "evidence", "%s.json" % prop), "w") as f:
        json.dump(evidence, f, indent=1, sort_keys=True, default=str)
    for l in lines:
        print(l)
    print("%s tier=%s seed=%s: %d/%d obligations discharged; correspondence %d/%d agreed; oracle %d cases, %d failing (%d known); %.1fs -> exit %d" % (
        prop, tier, seed, discharged, len(theorems), total["corr_agreed"], total["corr_cases"], total["oracle_cases"],
        sum(total["oracle_fail_count"].values()), sum(known_hits.values()), wall, rc))
    if total["harness_errors"]:
        print("note: %d harness error(s); first: %s" % (len(total["harness_errors"]), json.dumps(total["harness_errors"][0], default=str)[:800]))
    return rc


def run_replay(prop, mod, streams, path):
    with open(path) as f:
        rp = json.load(f)
    if rp.get("kind") == "no-failing-input-found":
        # re-run the whole quick check: the replay is the named obligation
        return run_check(prop, "quick", int(rp.get("seed", 0)))
    st = [s for s in streams if s.name == rp["stream"]][0]
    env_extra = rp["input"].get("__env__") if isinstance(rp["input"], dict) else None
    want = (rp.get("signature") or "").split("/env:")[0] if env_extra else rp.get("signature")
    if env_extra:
        os.environ.update(env_extra)      # the replay includes the environment the failure needs
    st.setup()
    try:
        r = st.impl(rp["input"])
        fails = st.oracle(rp["input"], r)
    finally:
        st.teardown()
    print(json.dumps({"implementation_result": r, "oracle": fails}, indent=1, default=str)[:6000])
    if any(sig == want for sig, _ in fails) or (fails and not rp.get("signature")):
        print("VIOLATION property=%s replay=%s" % (prop, path))
        return 1
    print("replay no longer fails")
    return 0
