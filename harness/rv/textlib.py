"""Solved graphs for the text properties (C06, C19, C05): generated single-version universes compiled by the real
solver over an in-memory repository whose candidates carry links and hashes, then written by the real writer."""
from __future__ import annotations

import contextlib
import io

from rv import graphlib as GL

NAMES = ["Foo.Bar", "foo-baz", "zope.interface", "a", "lib3_core", "PyYAML", "x-y.z", "via-lib", "backports.ssl-match-hostname", "B2",
         "corp-platform-datalake-analytics-connectors"]
VERS = ["1.0", "2.0.post1", "1!3.0", "1.0+local.1", "0.1a1", "2012.4", "3.0.0", "2024.10.1.post3+corp.build.7"]
INPUT_NAMES = ["requirements.in", "reqs/base.txt", "requirements/dev.in", "constraints.out", "./r.txt"]


def gen_og(rng, allow_path_requirers=True, allow_extras=True):
    names = rng.sample(NAMES, rng.randint(2, 6))
    pins = []
    for i, n in enumerate(names):
        v = rng.choice(VERS)
        fn = "%s-%s-py3-none-any.whl" % (n.replace("-", "_"), v)
        k = rng.random()
        if k < 0.5:
            link = ["https://files.example/pkgs/ab/cd/", fn + "#sha256=" + "%064x" % rng.getrandbits(256)]
        elif k < 0.8:
            link = [rng.choice(["wheels", "../third_party/wheels", "deps/wheeldir"]), None]
            link[1] = link[0] + "/" + fn
        else:
            link = None
        pins.append({"name": n, "version": v, "hash": "sha256:" + "%064x" % rng.getrandbits(256) if rng.random() < 0.9 else None,
                     "link": link, "reqs": []})
    # edges: from earlier pins to later ones (acyclic), each later pin gets at least one requirer
    inputs = [{"name": rng.choice(INPUT_NAMES) if allow_path_requirers else "in%d.txt" % i, "reqs": []} for i in range(rng.choice([1, 1, 2]))]
    names_used = set()
    for i in inputs:
        while i["name"] in names_used:
            i["name"] = "r%d_" % len(names_used) + i["name"].split("/")[-1]
        names_used.add(i["name"])

    def spec_for(v):
        return rng.choice(["", "", "==" + v, ">=" + v.split("+")[0], "!=9.9", "<=" + v.split("+")[0] if "+" not in v else ""])

    def spell(n):
        return rng.choice([n, n.lower(), n.replace(".", "-"), n.replace("-", "_")])

    for idx, p in enumerate(pins):
        requirers = []
        if idx == 0 or rng.random() < 0.4:
            requirers.append(rng.choice(inputs))
        for q in pins[:idx]:
            if rng.random() < 0.35:
                requirers.append(q)
        if not requirers:
            requirers.append(rng.choice(inputs + pins[:idx]))
        for r in requirers:
            extras = ""
            if allow_extras and rng.random() < 0.25:
                extras = "[%s]" % rng.choice(["x", "y", "x,y"])
            r["reqs"].append(spell(p["name"]) + extras + spec_for(p["version"]))
    # extras-gated requirements: a pin requested with [x] gets an `extra == "x"` requirement on a later pin
    if allow_extras:
        for idx, p in enumerate(pins[:-1]):
            if rng.random() < 0.3:
                t = rng.choice(pins[idx + 1:])
                p["reqs"].append(spell(t["name"]) + spec_for(t["version"]) + ' ; extra == "x"')
    return {"pins": pins, "inputs": inputs}


class LinkedRepo:
    """in-memory repository whose candidates carry the link and hash of the og"""

    @staticmethod
    def create(og):
        from req_compile.repos.repository import Repository, Candidate, DistributionType
        from req_compile.containers import DistInfo

        by_key = {GL.norm(p["name"]): p for p in og["pins"]}

        class _Repo(Repository):
            def __init__(self):
                super().__init__("linked", allow_prerelease=True)

            def __repr__(self):
                return "--index-url http://linked.example/simple"

            def __hash__(self):
                return id(self)

            def get_candidates(self, req):
                p = by_key.get(GL.norm(req.project_name))
                if p is None:
                    return []
                link = tuple(p["link"]) if p["link"] else None
                return [Candidate(p["name"], "%s-%s-py3-none-any.whl" % (p["name"].replace("-", "_"), p["version"]), GL.V(p["version"]),
                                  None, None, "any", link, DistributionType.WHEEL)]

            def resolve_candidate(self, candidate):
                p = by_key[GL.norm(candidate.name)]
                d = DistInfo(p["name"], GL.V(p["version"]), [GL.P(r) for r in p["reqs"]])
                d.origin = self
                d.hash = p["hash"]
                return d, True

            def close(self):
                pass

        return _Repo()


def compile_og(og, repo=None):
    """the real solver on the og's universe; returns (graph, roots, repo, input containers)"""
    from req_compile.compile import perform_compile
    from req_compile.containers import RequirementsFile
    GL.reset_caches()
    repo = repo or LinkedRepo.create(og)
    ins = [RequirementsFile(i["name"], [GL.P(r) for r in i["reqs"]]) for i in og["inputs"]]
    with contextlib.redirect_stderr(io.StringIO()):
        g, roots = perform_compile(ins, repo)
    return g, roots, repo, ins


def write_text(g, roots, repo, ins, **opts):
    from req_compile.cmdline import write_requirements_file
    buf = io.StringIO()
    write_requirements_file(g, roots, repo=repo, input_reqs=ins, write_to=buf, **opts)
    return buf.getvalue()


def full_url(link):
    """the location the writer prints for a candidate link"""
    import urllib.parse
    if link is None or link[1] is None:
        return None
    if link[0] and urllib.parse.urlsplit(link[0]).scheme:
        return urllib.parse.urljoin(link[0], link[1])
    return link[1]


def marker_extra(q):
    if not q.marker:
        return ""
    for m in q.marker._markers:
        if isinstance(m, tuple) and m[0].value == "extra" and m[1].value == "==":
            return m[2].value.strip().lower()
    return ""


def graph_summary(g, roots=None, active_only=False):
    """pins and requirer relation of a DistributionCollection, in comparable form.
    Edges are (requirer, project, specifier, requested extras, activating extra of the requirer); with
    `active_only` only requirements that apply under the extras currently requested of the requirer."""
    from rv.common import applies_under as req_uses_extra
    pins = {}
    edges = set()
    nodes = list(g.nodes.values()) if roots is None else [n for n in g.visit_nodes(roots)]
    for n in nodes:
        if n.metadata is None or n.metadata.meta:
            continue
        link = n.metadata.candidate.link if getattr(n.metadata, "candidate", None) is not None else None
        pins[n.key] = {"version": str(n.metadata.version), "hash": n.metadata.hash, "url": full_url(link)}
    for n in g.nodes.values():
        if n.metadata is None:
            continue
        try:
            exs = [None] + sorted(n.extras if not n.metadata.meta else [])
        except Exception:
            exs = [None]
        for q in n.metadata.reqs:
            t = GL.norm(q.name)
            if t not in pins:
                continue
            if active_only and not any(req_uses_extra(q, ex) for ex in exs):
                continue
            edges.add((n.metadata.name if n.metadata.meta else n.key, t, ",".join(sorted(str(s) for s in q.specifier)),
                       ",".join(sorted(q.extras)), marker_extra(q)))
    return pins, sorted(edges)
