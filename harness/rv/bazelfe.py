"""Loads private/compiler.py (the Bazel front-end) with a stub for the Bazel runfiles library."""
from __future__ import annotations

import importlib.util
import os
import sys
import types


def load_private_compiler():
    repo = os.environ.get("VERIF_REPO", "/repo")
    if "python.runfiles" not in sys.modules:
        pkg = types.ModuleType("python")
        pkg.__path__ = []
        rf = types.ModuleType("python.runfiles")

        class Runfiles:  # pragma: no cover - never used by the harness
            @staticmethod
            def Create():
                return None

        rf.Runfiles = Runfiles
        sys.modules.setdefault("python", pkg)
        sys.modules["python.runfiles"] = rf
    name = "rv_private_compiler"
    if name in sys.modules:
        return sys.modules[name]
    spec = importlib.util.spec_from_file_location(name, os.path.join(repo, "private", "compiler.py"))
    mod = importlib.util.module_from_spec(spec)
    sys.modules[name] = mod
    spec.loader.exec_module(mod)
    return mod
