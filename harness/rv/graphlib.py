"""Shared machinery for the graph / solver streams (C01, C02, C08, C09, C10):
in-memory repository, encoding of requirements / metadata / universes for the Lean driver, canonical
dumps of the real DistributionCollection, call-site observation."""
from __future__ import annotations

import contextlib
import itertools

from rv import common

EXTRAS = ["x", "y", "test", "p.q"]
VERS = ["1.0", "1.5", "2.0", "2.1", "3.0"]


def reset_caches():
    import req_compile.utils as U
    U.parse_requirement.cache_clear()
    U.NAME_CACHE.clear()


def P(text):
    from req_compile.utils import parse_requirement
    return parse_requirement(text)


def V(text):
    from req_compile.utils import parse_version
    return parse_version(text)


def norm(name):
    from req_compile.utils import normalize_project_name
    return normalize_project_name(name)


class Enc:
    """Encoder with one clause table / version table per case."""

    def __init__(self, versions=VERS):
        self.table = common.ClauseTable()
        self.versions = sorted(set(versions), key=V)
        self.rank = {str(V(v)): i + 1 for i, v in enumerate(self.versions)}

    def vrank(self, version):
        if version is None:
            return None
        return self.rank.get(str(version), 0)

    def req(self, r):
        if r is None:
            return None
        return common.req_json(r, self.table, EXTRAS)

    def meta(self, m):
        return {"name": m.name, "version": self.vrank(m.version), "vtext": str(m.version) if m.version is not None else "",
                "isMeta": bool(m.meta), "reqs": [self.req(r) for r in m.reqs]}

    def label(self, r):
        if r is None:
            return None
        return [norm(r.name), sorted(set(r.extras)), self.table.ids_of(r)]

    def acc(self):
        out = []
        for cid, spec in enumerate(self.table.by_id):
            for v in self.versions:
                if spec.contains(v, prereleases=True):
                    out.append([cid, self.rank[str(V(v))]])
        return out

    def orders(self):
        out = []
        for k in range(len(EXTRAS) + 1):
            for sub in itertools.combinations(EXTRAS, k):
                out.append({"extras": sorted(sub), "order": list({None} | set(sub))})
        return out

    def dump(self, g):
        live = {id(n) for n in g.nodes.values()}
        out = []
        for k in sorted(g.nodes):
            n = g.nodes[k]
            md = None if n.metadata is None else [n.metadata.name, self.vrank(n.metadata.version)]
            deps = sorted(([d.key, id(d) in live, self.label(r)] for d, r in n.dependencies.items()), key=repr)
            rd = sorted(([r.key, id(r) in live] for r in n.reverse_deps), key=repr)
            out.append({"key": k, "md": md, "deps": deps, "rdeps": rd, "complete": bool(n.complete)})
        return out


def canon_model_dump(d):
    out = []
    for n in d:
        out.append({"key": n["key"], "md": n["md"], "deps": sorted(n["deps"], key=repr), "rdeps": sorted(n["rdeps"], key=repr),
                    "complete": n["complete"]})
    return out


def make_meta(j):
    """DistInfo from the JSON text form {"name","version","isMeta","reqs":[texts]}."""
    from req_compile.containers import DistInfo
    return DistInfo(j["name"], V(j["version"]) if j.get("version") else None, [P(t) for t in j["reqs"]], meta=bool(j.get("isMeta")))


class MemRepo:
    """In-memory repository over a universe {name: {version: [req texts]}} (subclass created lazily)."""

    @staticmethod
    def create(universe):
        from req_compile.repos.repository import Repository, Candidate, DistributionType
        from req_compile.containers import DistInfo

        class _Mem(Repository):
            def __init__(self):
                super().__init__("mem", allow_prerelease=False)
                self.universe = universe
                self.log = []

            def get_candidates(self, req):
                name = norm(req.project_name)
                out = []
                for n, vers in self.universe.items():
                    if norm(n) == name:
                        for v in vers:
                            out.append(Candidate(n, "%s-%s-py3-none-any.whl" % (n.replace("-", "_"), v), V(v), None, None, "any", None,
                                                 DistributionType.WHEEL))
                return out

            def resolve_candidate(self, candidate):
                self.log.append((candidate.name, str(candidate.version)))
                for v, reqs in self.universe[candidate.name].items():
                    if V(v) == candidate.version:
                        d = DistInfo(candidate.name, candidate.version, [P(r) for r in reqs])
                        d.origin = self
                        return d, True
                raise KeyError(candidate.name)

            def close(self):
                pass

        return _Mem()


@contextlib.contextmanager
def observe_compile():
    """Call-site observation without touching the repository: wraps is_possible (walk-back branch) and
    DistributionCollection.remove_dists (invalidations), records the recursion stack of compile_roots."""
    import req_compile.compile as C
    import req_compile.dists as D
    obs = {"possible": {}, "walkback": 0, "invalidations": 0, "invalidated_on_stack": 0, "invalidated_self_dep": 0, "stack_max": 0}
    stack = []
    orig_possible = C.is_possible
    orig_remove = D.DistributionCollection.remove_dists
    orig_compile_roots = C.compile_roots

    def possible(req):
        r = orig_possible(req)
        obs["walkback"] += 1
        obs.setdefault("possible_reqs", []).append((req, bool(r)))
        return r

    def remove(self, node, remove_upstream=True):
        if not remove_upstream and isinstance(node, D.DependencyNode):
            obs["invalidations"] += 1
            if any(n is node for n in stack):
                obs["invalidated_on_stack"] += 1
            if node in node.dependencies:
                obs["invalidated_self_dep"] += 1
        return orig_remove(self, node, remove_upstream=remove_upstream)

    def compile_roots(node, *a, **kw):
        stack.append(node)
        obs["stack_max"] = max(obs["stack_max"], len(stack))
        try:
            return orig_compile_roots(node, *a, **kw)
        finally:
            stack.pop()

    C.is_possible = possible
    D.DistributionCollection.remove_dists = remove
    C.compile_roots = compile_roots
    try:
        yield obs
    finally:
        C.is_possible = orig_possible
        D.DistributionCollection.remove_dists = orig_remove
        C.compile_roots = orig_compile_roots
