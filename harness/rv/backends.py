"""Real repository back-ends on a scratch file system and a fake HTTP session:
generated wheels / sdists, find-links directories, source trees, simple-index pages with scripted faults."""
from __future__ import annotations

import hashlib
import io
import os
import re
import zipfile


def wheel_bytes(name, version, requires=(), extras=None, body=None, description=None, meta_bytes=None):
    """a minimal, valid, deterministic wheel; `description` is the long description (after the blank line that ends the
    headers), `meta_bytes` raw bytes of further header lines (another encoding than UTF-8, odd characters)"""
    buf = io.BytesIO()
    dist = "%s-%s.dist-info" % (name.replace("-", "_"), version)
    meta = ["Metadata-Version: 2.1", "Name: %s" % name, "Version: %s" % version]
    for r in requires:
        meta.append("Requires-Dist: %s" % r)
    for e in (extras or []):
        meta.append("Provides-Extra: %s" % e)
    with zipfile.ZipFile(buf, "w") as z:
        def w(n, data):
            zi = zipfile.ZipInfo(n, date_time=(2020, 1, 1, 0, 0, 0))
            z.writestr(zi, data)
        w("%s/__init__.py" % name.replace("-", "_").replace(".", "_"), body or "")
        w(dist + "/WHEEL", "Wheel-Version: 1.0\nGenerator: rv\nRoot-Is-Purelib: true\nTag: py3-none-any\n")
        data = ("\n".join(meta) + "\n").encode("utf-8") + (meta_bytes or b"")
        if description is not None:
            data += b"\n" + description.encode("utf-8")
        w(dist + "/METADATA", data)
        w(dist + "/RECORD", "")
    return buf.getvalue()


def wheel_name(name, version, py="py3", abi="none", plat="any"):
    return "%s-%s-%s-%s-%s.whl" % (name.replace("-", "_"), version, py, abi, plat)


def write_findlinks(path, files):
    """files: {filename: bytes}"""
    os.makedirs(path, exist_ok=True)
    for fn, data in files.items():
        with open(os.path.join(path, fn), "wb") as f:
            f.write(data)


def write_source_project(path, name, version, requires=()):
    os.makedirs(path, exist_ok=True)
    with open(os.path.join(path, "setup.cfg"), "w") as f:
        f.write("[metadata]\nname = %s\nversion = %s\n\n[options]\ninstall_requires =\n%s" % (
            name, version, "".join("    %s\n" % r for r in requires)))


def pep503(name):
    return re.sub(r"(\s|[-_.])+", "-", name).lower()


def FakeResponse(url, status, content, content_type=None, compress=False):
    """a real ``requests.Response`` carrying canned bytes: ``content``, ``text`` (decoded the way requests decodes: by the
    charset of the Content-Type header, ISO-8859-1 for text/* without one), ``iter_content``, ``raise_for_status`` ..."""
    import requests
    from requests.structures import CaseInsensitiveDict
    from requests.utils import get_encoding_from_headers
    import gzip as _gzip
    import io as _io
    import urllib3
    r = requests.models.Response()
    r.status_code = status
    r.url = url
    if content_type is None:
        content_type = "text/html; charset=utf-8" if content[:1] == b"<" else "application/octet-stream"
    # the bytes on the wire (a server may compress in transit: `Content-Encoding: gzip`); requests decodes them when
    # `content` / `iter_content` are used, `raw` hands them out as they came
    wire = _gzip.compress(content, mtime=0) if compress else content
    hdrs = {"Content-Type": content_type, "Content-Length": str(len(wire))}
    if compress:
        hdrs["Content-Encoding"] = "gzip"
    r.headers = CaseInsensitiveDict(hdrs)
    r.raw = urllib3.response.HTTPResponse(body=_io.BytesIO(wire), headers=hdrs, status=status, preload_content=False,
                                           decode_content=False)      # as the requests adapter asks urllib3 for it
    r.encoding = get_encoding_from_headers(r.headers)
    r.reason = "OK" if status < 400 else "Error"
    return r


class FakeIndex:
    """One simple index: {project: {filename: bytes}}; pages list files with relative links and sha256 fragments."""

    def __init__(self, base, projects, with_hash=True, faults=None, served_at=None, attrs=None, files_dir="files",
                 content_type=None, compress=False):
        self.compress = compress             # the server compresses what it sends (Content-Encoding: gzip)
        self.base = base.rstrip("/")
        self.attrs = dict(attrs or {})       # filename -> extra attribute text of its anchor (data-requires-python="...")
        self.files_dir = files_dir           # the directory the files are kept in (any characters a server may use)
        self.content_type = content_type     # of the project pages
        self.hrefs = {}                      # filename -> the href written on the page
        self.projects = projects
        self.with_hash = with_hash
        self.faults = dict(faults or {})     # url -> list of (status, body|None) consumed first
        self.log = []
        # a mirror / devpi-style index: the project page is *redirected*; the response carries the URL it was finally
        # served from (`response.url`), and the page's relative links are relative to that
        self.served_at = served_at.rstrip("/") if served_at else None

    def _files_base(self):
        return (self.served_at or self.base).rsplit("/", 1)[0] + "/" + self.files_dir + "/"

    def handles(self, url):
        return url.startswith(self.base + "/") or url.startswith(self._files_base())

    def get(self, url):
        self.log.append(url)
        script = self.faults.get(url)
        if script:
            status, body = script.pop(0)
            if status is not None:
                return FakeResponse(url, status, body if body is not None else b"<html>error %d</html>" % status)
        files_base = self._files_base()
        if url.startswith(files_base):
            fn = url[len(files_base):].split("#")[0]
            for files in self.projects.values():
                if fn in files:
                    return FakeResponse(url, 200, files[fn], compress=self.compress)
            return FakeResponse(url, 404, b"not found")
        m = re.match(re.escape(self.base) + r"/([^/]+)/$", url)
        if m:
            for pname, files in self.projects.items():
                if pep503(pname) == m.group(1):
                    rows = []
                    for fn in sorted(files):
                        if self.with_hash == "md5":
                            frag = "#md5=" + hashlib.md5(files[fn]).hexdigest()
                        else:
                            frag = "#sha256=" + hashlib.sha256(files[fn]).hexdigest() if self.with_hash else ""
                        self.hrefs[fn] = "../../%s/%s%s" % (self.files_dir, fn, frag)
                        extra = (" " + self.attrs[fn]) if fn in self.attrs else ""
                        rows.append('<a href="%s"%s>%s</a><br/>' % (self.hrefs[fn], extra, fn))
                    page = "<!DOCTYPE html><html><head><meta charset=\"utf-8\"></head><body><h1>Links for %s</h1>%s</body></html>" % (pname, "\n".join(rows))
                    final = url if not self.served_at else self.served_at + "/" + m.group(1) + "/"
                    return FakeResponse(final, 200, page.encode("utf-8"), self.content_type, compress=self.compress)
            return FakeResponse(url, 404, b"<html>404</html>")
        return FakeResponse(url, 404, b"<html>404</html>")


class FakeSession:
    """requests.Session stand-in routing to FakeIndex objects; hashable by identity (lru_cache key)."""

    def __init__(self, indexes):
        self.indexes = indexes
        self.log = []

    def get(self, url, stream=False, **kw):
        self.log.append(url)
        import urllib.parse
        url = urllib.parse.unquote(url)      # a real session percent-encodes what it sends; the server decodes it
        for idx in self.indexes:
            if idx.handles(url):
                return idx.get(url)
        return FakeResponse(url, 404, b"")

    def close(self):
        pass


def leaves(repo):
    """the leaf repositories of a (possibly nested) MultiRepository, in order"""
    from req_compile.repos.multi import MultiRepository
    if isinstance(repo, MultiRepository):
        out = []
        for r in repo.repositories:
            out.extend(leaves(r))
        return out
    return [repo]


def clear_page_cache():
    import req_compile.repos.pypi as P
    P._scan_page_links.cache_clear()
