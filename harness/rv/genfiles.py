"""Generators of distribution file names (wheels with tag triples / compressed sets, sdists)."""
from __future__ import annotations

FILE_VERSIONS = ["0.9", "1.0", "1.0.0", "1.1", "1.4.0", "1.4.1", "1.5", "2.0", "2.0.1", "2.1.3", "3.0",
                 "1.0a1", "2.0b2", "2.0rc1", "3.0.dev1", "1.0.post1", "2.0.post2", "1!0.5", "10.0", "0.0.1", "4.0a1", "4.0"]

PY_TAGS_OK = ["cp312", "cp311", "cp38", "cp3", "py3", "py312", "py30"]
PY_TAGS_BAD = ["cp313", "py2", "cp27", "pp312", "py4", "jy27", "ip3", "py313"]
ABI_OK = ["none", "abi3", "cp312"]
ABI_BAD = ["cp311", "cp312t", "cp313", "abi4", "pypy312_pp73", "cp312m"]
PLAT_OK = ["any", "linux_x86_64", "manylinux1_x86_64", "manylinux2010_x86_64", "manylinux2014_x86_64",
           "manylinux_2_5_x86_64", "manylinux_2_17_x86_64", "manylinux_2_28_x86_64", "manylinux_2_36_x86_64"]
PLAT_BAD = ["manylinux_2_37_x86_64", "manylinux_3_0_x86_64", "manylinux2014_aarch64", "manylinux_2_17_i686", "win_amd64",
            "win32", "macosx_10_9_x86_64", "macosx_11_0_arm64", "musllinux_1_1_x86_64", "linux_aarch64", "manylinux1_i686"]


def gen_tag_set(rng, pool_ok, pool_bad, p_bad=0.25, compress=0.3):
    n = 1 if rng.random() > compress else rng.choice([2, 2, 3])
    tags = []
    for _ in range(n):
        pool = pool_bad if rng.random() < p_bad else pool_ok
        t = rng.choice(pool)
        if t not in tags:
            tags.append(t)
    return tags


def gen_wheel_name(rng, name, version, p_bad=0.25):
    py = gen_tag_set(rng, PY_TAGS_OK, PY_TAGS_BAD, p_bad)
    abi = rng.choice(ABI_BAD) if rng.random() < p_bad * 0.6 else rng.choice(ABI_OK)
    plat = gen_tag_set(rng, PLAT_OK, PLAT_BAD, p_bad)
    build = ""
    if rng.random() < 0.15:
        build = "-" + rng.choice(["1", "2", "1b", "10"])
    return "%s-%s%s-%s-%s-%s.whl" % (name.replace("-", "_"), version, build, ".".join(py), abi, ".".join(plat))


def gen_sdist_name(rng, name, version):
    ext = rng.choice([".tar.gz", ".tar.gz", ".zip", ".tgz", ".tar.bz2"])
    return "%s-%s%s" % (name, version, ext)
