"""A small PEP 517 build back-end for generated projects (C13): it prepares the metadata of the project in the current
directory from the [project] table of its pyproject.toml - and behaves like back-ends in the wild do: it edits
``sys.argv`` *in place* (a command line for its own sub-commands), prints, and leaves all that behind."""
import os
import sys

import toml


def _project():
    return toml.load("pyproject.toml")["project"]


def _rendezvous():
    """when the harness asks for it (RV_BACKEND_RENDEZVOUS names a directory): announce that this hook call has begun and
    give another call a moment to begin as well - if the analyser lets two hook calls overlap they do overlap here; if it
    serialises them the wait simply runs out"""
    import threading
    import time
    d = os.environ.get("RV_BACKEND_RENDEZVOUS")
    if not d or not os.path.isdir(d):
        return
    open(os.path.join(d, "arrived-%d-%d" % (os.getpid(), threading.get_ident())), "w").close()
    deadline = time.time() + 0.4
    while time.time() < deadline:
        if len([f for f in os.listdir(d) if f.startswith("arrived-")]) >= 2:
            time.sleep(0.05)
            break
        time.sleep(0.01)


def prepare_metadata_for_build_wheel(metadata_directory, config_settings=None):
    _rendezvous()
    proj = _project()
    sys.argv[1:] = ["dist_info", "--output-dir", metadata_directory]      # in place: the caller's list object is edited
    sys.argv.append("--keep-egg-info")
    print("preparing metadata for", proj["name"])
    name = "%s-%s.dist-info" % (proj["name"].replace("-", "_"), proj["version"])
    os.makedirs(os.path.join(metadata_directory, name), exist_ok=True)
    lines = ["Metadata-Version: 2.1", "Name: %s" % proj["name"], "Version: %s" % proj["version"]]
    for r in proj.get("dependencies", []):
        lines.append("Requires-Dist: %s" % r)
    for extra, rs in proj.get("optional-dependencies", {}).items():
        lines.append("Provides-Extra: %s" % extra)
        for r in rs:
            lines.append("Requires-Dist: %s ; extra == '%s'" % (r, extra) if ";" not in r else
                         "Requires-Dist: %s and extra == '%s'" % (r.replace(";", "; (", 1) + ")", extra))
    with open(os.path.join(metadata_directory, name, "METADATA"), "w") as f:
        f.write("\n".join(lines) + "\n")
    return name


def build_wheel(wheel_directory, config_settings=None, metadata_directory=None):
    raise RuntimeError("this back-end only prepares metadata")
