#!/venv/bin/python
"""Prints Lean terms (Env, Problem, acc) for a solver case given as JSON on stdin, using the harness encoding."""
import json, sys, os
sys.path.insert(0, os.path.join(os.path.dirname(os.path.dirname(os.path.abspath(__file__))), "harness"))
from rv import core
core.setup_repo_path()
from rv import solverstream as SS

def lstr(s): return json.dumps(s)
def lchars(s): return '%s.toList' % json.dumps(s)
def lopt(x, f): return "none" if x is None else "(some %s)" % f(x)
def llist(xs, f): return "[" + ", ".join(f(x) for x in xs) + "]"
def req(r):
    return "{ name := %s, extras := %s, clauses := %s, marker := %s, actNone := %s, actFor := %s }" % (
        lchars(r["name"]), llist(r["extras"], lstr), llist(r["clauses"], str), lopt(r["marker"], lchars),
        str(r["actNone"]).lower(), llist(r["actFor"], lstr))
def meta(m):
    return "{ name := %s, version := %s, vtext := %s, isMeta := %s, reqs := %s }" % (
        lchars(m["name"]), lopt(m["version"], str), lstr(m["vtext"]), str(m["isMeta"]).lower(), llist(m["reqs"], req))

case = json.load(sys.stdin)
name = sys.argv[1]
run = SS.Run(case)
r = run.result()
q = SS.model_request(case, r)
print("def %s_acc : List (Clause × Ver) := %s" % (name, llist(q["acc"], lambda p: "(%d, %d)" % tuple(p))))
print("def %s_env : Env := { univ := %s, possible := %s, neClause := %s, order := [] }" % (
    name,
    llist(q["universe"], lambda u: "(%s, %s)" % (lchars(u["key"]), llist(u["versions"], lambda v: "(%d, %s)" % (v["rank"], meta(v["meta"]))))),
    llist(q["possible"], lambda p: "(%s, %s)" % (llist(p["cs"], str), str(p["ok"]).lower())),
    llist([n for n in q["ne"]], lambda n: "((%s, %d), %d)" % (lchars(n["key"]), n["rank"], n["clause"]))))
print("def %s_prob : Problem := { inputs := %s, constraints := %s, removeConstraints := %s }" % (
    name, llist(q["inputs"], meta), llist(q["constraints"], lambda c: "(%s, %s)" % (meta(c["meta"]), llist(c["pinned"], lambda b: str(b).lower()))),
    str(q["removeConstraints"]).lower()))
print("-- implementation outcome:", r["outcome"], r["region"], json.dumps(r.get("oracle")) if "oracle" in r else "")
print("-- clause table:", [str(s) for s in run.enc.table.by_id])
