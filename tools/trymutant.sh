#!/bin/bash
# usage: tools/trymutant.sh <prop> <file> <sed-expr>   -- applies a sed edit to /repo, runs the quick check, restores
prop=$1; file=$2; expr=$3
cd /repo && git diff --quiet || { echo "repo dirty"; exit 3; }
sed -i "$expr" "/repo/$file"
git -C /repo diff --stat | tail -1
cd /verif && ./check $prop 2>&1 | grep -v WARNING | tail -4
git -C /repo checkout -- .
