#!/usr/bin/env python3
"""Regenerates MANIFEST.json from tools/claims.json (one entry per claimed property)."""
import json, os
here = os.path.dirname(os.path.dirname(os.path.abspath(__file__)))
claims = json.load(open(os.path.join(here, "tools", "claims.json")))
props = [json.loads(l) for l in open(os.path.join(here, "properties.jsonl"))]
checks, na = [], []
for p in props:
    pid = p["id"]
    c = claims.get(pid)
    if c and c.get("claimed"):
        checks.append({
            "property_id": pid,
            "quick_cmd": "./check %s --tier quick" % pid,
            "thorough_cmd": "./check %s --tier thorough" % pid,
            "evidence_file": "evidence/%s.json" % pid,
            "replay_cmd_template": "./check %s --replay {path}" % pid,
            "engine": "lean4-model+correspondence",
            "level_claimed": {"category": "proof", "text": c["text"], "design_ref": c.get("design_ref", "DESIGN.md §6 " + pid)},
            "level_note": c["note"],
            "technique": c.get("technique", "Lean 4 theorems over a hand-written executable model; model tied to /repo by a differential correspondence check through the compiled Lean driver; oracle search for failing inputs"),
        })
    else:
        na.append({"property_id": pid, "reason": (c or {}).get("reason", "not built yet in this session: no Lean model/theorem exists for it so far (see DESIGN.md §6 for the plan); not claimed rather than checked by another technique")})
manifest = {
    "version": 1,
    "setup_cmd": "cd lean && lake build ReqVerif rvdriver",
    "hooks": {"guard": "REQ_COMPILE_VERIF", "enable": "no hooks are needed: the harness subclasses/wraps from outside; REQ_COMPILE_VERIF=1 is exported by ./check but read nowhere in /repo",
              "baseline_off_cmd": "cd /repo && env -u REQ_COMPILE_VERIF /venv/bin/python -m pytest -ra -q -p no:cacheprovider --timeout=900 --continue-on-collection-errors",
              "source_commits": [], "add_only": True},
    "engines": [{"name": "lean4-model+correspondence", "path": "lean/ + harness/", "serves_properties": [c["property_id"] for c in checks],
                 "kind_free_text": "Lean 4.33 project (models, theorems, compiled JSON-line driver) + Python correspondence/oracle harness + source->Lean translator for tables and skeletons"}],
    "checks": checks,
    "not_applicable": na,
    "notes": "All checks: ./check <ID> [--tier quick|thorough] [--replay file]; VERIF_SEED and VERIF_TIER are honoured; exit 0 ok / 1 violation / 2 infrastructure.",
}
json.dump(manifest, open(os.path.join(here, "MANIFEST.json"), "w"), indent=1)
print("claimed:", [c["property_id"] for c in checks])
