#!/bin/bash
# tools/sweep_par.sh [N]: every seeded change against its property's quick check, in N parallel shards.
# Each shard works on its own copies of /verif and /repo under /tmp/rvpar (removed at the end); /repo itself is not touched.
N=${1:-5}
base=/tmp/rvpar
rm -rf $base; mkdir -p $base
ids=($(ls /verif/seeded))
for k in $(seq 0 $((N-1))); do
  mkdir -p $base/$k
  cp -a /verif $base/$k/verif
  git clone -q /repo $base/$k/repo
  (
    cd $base/$k/verif
    export VERIF_REPO=$base/$k/repo
    i=0
    for id in "${ids[@]}"; do
      if [ $((i % N)) -eq $k ]; then
        p=${id%%-*}
        git -C $VERIF_REPO apply $base/$k/verif/seeded/$id/patch.diff || { echo "$id patch does not apply"; i=$((i+1)); continue; }
        out=$(./check $p 2>&1); rc=$?
        sigs=$(echo "$out" | grep "^VIOLATION property" | sed 's/.*replay=\([^ ]*\).*/\1/' | while read r; do python3 -c "import json,sys; d=json.load(open('$r')); print(d.get('signature') or d.get('kind'))"; done | sort -u | tr '\n' ' ')
        nf=$(echo "$out" | grep -c "no-failing-input-found")
        echo "$id rc=$rc nofail=$nf | $sigs | $(echo "$out" | grep 'tier=quick' | tail -1 | sed 's/.*seed=0: //')"
        git -C $VERIF_REPO checkout -- .
      fi
      i=$((i+1))
    done
  ) > $base/shard$k.out 2>&1 &
done
wait
cat $base/shard*.out | sort
rm -rf $base
