#!/bin/bash
# apply each seeded patch, run its property's quick check only, print exit + signatures
cd /verif
for d in seeded/C*; do
  id=$(basename $d); p=${id%%-*}
  git -C /repo diff --quiet || { echo "repo dirty before $id"; exit 3; }
  git -C /repo apply /verif/$d/patch.diff || { echo "$id patch does not apply"; continue; }
  out=$(./check $p 2>&1); rc=$?
  sigs=$(echo "$out" | grep "^VIOLATION" | sed 's/.*replay=\([^ ]*\).*/\1/' | while read r; do python3 -c "import json,sys; d=json.load(open('$r')); print(d.get('signature') or d.get('kind'))"; done | sort -u | tr '\n' ' ')
  nf=$(echo "$out" | grep -c "no-failing-input-found")
  echo "$id rc=$rc nofail=$nf | $sigs | $(echo "$out" | grep 'tier=quick' | tail -1 | sed 's/.*seed=0: //')"
  git -C /repo checkout -- .
done
