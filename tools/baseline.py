#!/usr/bin/env python3
"""Runs the repository's pinned test suite (guard off) and compares with /root/.vp/BASELINE.json."""
import json, os, subprocess, sys, tempfile, xml.etree.ElementTree as ET
base = json.load(open("/root/.vp/BASELINE.json"))
tmp = tempfile.mkdtemp(prefix="rvbase")
xml = os.path.join(tmp, "j.xml")
env = dict(os.environ); env.pop("REQ_COMPILE_VERIF", None)
subprocess.run(["/venv/bin/python", "-m", "pytest", "-ra", "-q", "-p", "no:cacheprovider", "--timeout=900",
                "--continue-on-collection-errors", "--junitxml=" + xml], cwd="/repo", env=env,
               stdout=subprocess.DEVNULL, stderr=subprocess.DEVNULL)
passed = set()
for tc in ET.parse(xml).getroot().iter("testcase"):
    if not any(ch.tag in ("failure", "error", "skipped") for ch in tc):
        passed.add(tc.get("classname") + "::" + tc.get("name"))
missing = [t for t in base["stable_pass"] if t not in passed]
print("baseline stable:", len(base["stable_pass"]), "passed now:", len(passed), "missing:", len(missing))
for m in missing[:20]:
    print("  MISSING", m)
import shutil; shutil.rmtree(tmp, ignore_errors=True)
sys.exit(1 if missing else 0)
