#!/bin/bash
# usage: [SEED_DIR=/verif/seeded/Cxx-2] tools/tryseed.sh Cxx [other props to run as well...]
# applies /verif/seeded/Cxx/patch.diff to /repo, runs the repository's suite, the demonstration and the checks, restores /repo
id=$1; shift
dir=${SEED_DIR:-/verif/seeded/$id}
cd /repo && git diff --quiet || { echo "repo dirty"; exit 3; }
git -C /repo apply $dir/patch.diff || { echo "patch does not apply"; exit 3; }
echo "== suite:"; python3 /verif/tools/baseline.py | tail -2
echo "== demo:"; (cd /repo && PYTHONPATH=/repo timeout 600 /venv/bin/python $dir/demo.py > /tmp/sc/demo_$id.out 2>&1; echo "demo exit $?"; tail -5 /tmp/sc/demo_$id.out)
for p in $id "$@"; do
  echo "== check $p:"; (cd /verif && ./check $p 2>&1 | grep -v "^KNOWN-FINDING\|^NOTE\|WARNING" | tail -8)
done
git -C /repo checkout -- .
git -C /repo status --short | head -3
